package verifharness

import (
	"bufio"
	"bytes"
	"fmt"
	"io"
	"net"
	"net/http"
	"sort"
	"strconv"
	"strings"
	"time"
)

// ---- raw HTTP/1.1 client: what is really on the client socket ----

type wireResp struct {
	Interim  []int         // 1xx status codes seen before the final response
	InterimH []http.Header // their headers
	Status   int           // final status
	Header   http.Header   // final header block
	Framing  string        // "cl" | "chunked" | "close" | "none"
	Body     []byte        // de-chunked body bytes as received
	Segments []int         // cumulative body length at each read that returned data (arrival pattern)
	Trunc    bool          // connection ended before the declared length / final chunk
	Err      string
}

// rawExchange writes the request bytes and parses the response without any transparent decoding.
func rawExchange(addr string, reqBytes []byte, method string, timeout time.Duration) wireResp {
	return rawExchangeP(addr, reqBytes, method, timeout, nil)
}

// rawExchangeP additionally reports the number of body bytes received so far (arrival of flushed segments)
// rawAfterSend, when set, runs on the connection once the request has been sent (a client that half-closes, for instance)
var rawAfterSend func(net.Conn)

func rawExchangeP(addr string, reqBytes []byte, method string, timeout time.Duration, progress func(n int)) wireResp {
	return rawExchangeGated(addr, reqBytes, method, timeout, progress, len(reqBytes), nil)
}

// rawExchangeGated sends the first split bytes of the request, waits for the gate, then sends the rest
func rawExchangeGated(addr string, reqBytes []byte, method string, timeout time.Duration, progress func(n int), split int, gate <-chan struct{}) wireResp {
	var out wireResp
	if progress == nil {
		progress = func(int) {}
	}
	conn, err := net.DialTimeout("tcp", addr, timeout)
	if err != nil {
		out.Err = err.Error()
		return out
	}
	defer conn.Close()
	conn.SetDeadline(time.Now().Add(timeout))
	if _, err := conn.Write(reqBytes[:split]); err != nil {
		out.Err = err.Error()
		return out
	}
	if split < len(reqBytes) {
		if gate != nil {
			<-gate
		}
		if _, err := conn.Write(reqBytes[split:]); err != nil {
			out.Err = err.Error()
			return out
		}
	}
	if f := rawAfterSend; f != nil {
		f(conn)
	}
	br := bufio.NewReader(conn)
	for {
		line, err := br.ReadString('\n')
		if err != nil {
			out.Err = "status line: " + err.Error()
			return out
		}
		parts := strings.SplitN(strings.TrimRight(line, "\r\n"), " ", 3)
		if len(parts) < 2 {
			out.Err = "bad status line " + line
			return out
		}
		code, _ := strconv.Atoi(parts[1])
		h := http.Header{}
		for {
			l, err := br.ReadString('\n')
			if err != nil {
				out.Err = "header: " + err.Error()
				return out
			}
			l = strings.TrimRight(l, "\r\n")
			if l == "" {
				break
			}
			if i := strings.IndexByte(l, ':'); i > 0 {
				h.Add(http.CanonicalHeaderKey(l[:i]), strings.TrimLeft(l[i+1:], " \t"))
			}
		}
		if code >= 100 && code < 200 && code != 101 {
			// "100 Continue" may arrive twice through a Go reverse proxy: net/http's server sends one when the request body is first
			// read and httputil.ReverseProxy forwards the backend's; which of the two comes first is a race inside the standard
			// library (the second is suppressed only in one order).  Their number is not Helios's: repeated 100s count as one.
			if code == 100 && len(out.Interim) > 0 && out.Interim[len(out.Interim)-1] == 100 {
				continue
			}
			out.Interim = append(out.Interim, code)
			out.InterimH = append(out.InterimH, h)
			continue
		}
		out.Status, out.Header = code, h
		progress(0) // the final header block is here
		break
	}
	noBody := method == "HEAD" || out.Status == 204 || out.Status == 304 || (out.Status >= 100 && out.Status < 200)
	switch {
	case noBody:
		out.Framing = "none"
	case strings.EqualFold(out.Header.Get("Transfer-Encoding"), "chunked"):
		out.Framing = "chunked"
		for {
			l, err := br.ReadString('\n')
			if err != nil {
				out.Trunc = true
				return out
			}
			n, perr := strconv.ParseInt(strings.TrimSpace(strings.SplitN(l, ";", 2)[0]), 16, 64)
			if perr != nil {
				out.Err = "chunk size " + l
				return out
			}
			if n == 0 {
				for { // trailers
					t, err := br.ReadString('\n')
					if err != nil || strings.TrimRight(t, "\r\n") == "" {
						break
					}
				}
				return out
			}
			buf := make([]byte, n)
			if _, err := io.ReadFull(br, buf); err != nil {
				out.Trunc = true
				return out
			}
			out.Body = append(out.Body, buf...)
			out.Segments = append(out.Segments, len(out.Body))
			progress(len(out.Body))
			br.ReadString('\n')
		}
	case out.Header.Get("Content-Length") != "":
		out.Framing = "cl"
		n, _ := strconv.Atoi(out.Header.Get("Content-Length"))
		buf := make([]byte, n)
		m := 0
		for m < n {
			k, err := br.Read(buf[m:])
			m += k
			if k > 0 {
				progress(m)
			}
			if err != nil {
				break
			}
		}
		out.Body = buf[:m]
		if m < n {
			out.Trunc = true
		}
	default:
		out.Framing = "close"
		b, _ := io.ReadAll(br)
		out.Body = b
	}
	return out
}

// buildRequest renders an HTTP/1.1 request; body framing: "cl" or "chunked" (chunks of the given sizes)
func buildRequest(method, path, host string, headers [][2]string, body []byte, framing string) []byte {
	var b bytes.Buffer
	fmt.Fprintf(&b, "%s %s HTTP/1.1\r\nHost: %s\r\n", method, path, host)
	for _, kv := range headers {
		fmt.Fprintf(&b, "%s: %s\r\n", kv[0], kv[1])
	}
	b.WriteString("Connection: close\r\n")
	switch framing {
	case "chunked":
		b.WriteString("Transfer-Encoding: chunked\r\n\r\n")
		for off := 0; off < len(body); {
			n := 7
			if off+n > len(body) {
				n = len(body) - off
			}
			fmt.Fprintf(&b, "%x\r\n", n)
			b.Write(body[off : off+n])
			b.WriteString("\r\n")
			off += n
		}
		b.WriteString("0\r\n\r\n")
	case "cl":
		fmt.Fprintf(&b, "Content-Length: %d\r\n\r\n", len(body))
		b.Write(body)
	default:
		b.WriteString("\r\n")
	}
	return b.Bytes()
}

// canonHeaders renders a header block as sorted "Key: value" lines, skipping the named keys
func canonHeaders(h http.Header, skip ...string) []string {
	sk := map[string]bool{}
	for _, s := range skip {
		sk[http.CanonicalHeaderKey(s)] = true
	}
	var out []string
	for k, vs := range h {
		if sk[k] {
			continue
		}
		for _, v := range vs {
			out = append(out, k+": "+v)
		}
	}
	sort.Strings(out)
	return out
}

// detBytes: deterministic payload bytes (offset-dependent so that reordering or duplication shows)
func detBytes(off, n int) []byte {
	b := make([]byte, n)
	for i := range b {
		b[i] = byte('a' + (off+i)%26)
	}
	return b
}
