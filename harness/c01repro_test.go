package verifharness

import (
	"bufio"
	"net"
	"net/http"
	"net/http/httptest"
	"strings"
	"testing"
	"time"

	"github.com/0xReLogic/Helios/internal/config"
	lbp "github.com/0xReLogic/Helios/internal/loadbalancer"
)

// streamProbe: does the first flushed event reach the client before the backend sends the second?
func streamProbe(front http.Handler, release chan struct{}) (firstBeforeRelease bool, sawAE string) {
	srv := httptest.NewServer(front)
	defer srv.Close()
	conn, err := net.DialTimeout("tcp", srv.Listener.Addr().String(), time.Second)
	if err != nil {
		return false, "dial"
	}
	defer conn.Close()
	conn.Write([]byte("GET /sse HTTP/1.1\r\nHost: x\r\nConnection: close\r\n\r\n"))
	br := bufio.NewReader(conn)
	got := make(chan bool, 1)
	go func() {
		for {
			l, err := br.ReadString('\n')
			if strings.Contains(l, "event1") {
				got <- true
				return
			}
			if err != nil {
				got <- false
				return
			}
		}
	}()
	select {
	case ok := <-got:
		firstBeforeRelease = ok
	case <-time.After(700 * time.Millisecond):
		firstBeforeRelease = false
	}
	close(release)
	return firstBeforeRelease, ""
}

func TestReproC01(t *testing.T) {
	var seenAE string
	release := make(chan struct{})
	backend := httptest.NewServer(http.HandlerFunc(func(w http.ResponseWriter, r *http.Request) {
		seenAE = r.Header.Get("Accept-Encoding")
		w.Header().Set("Content-Type", "text/event-stream")
		w.Write([]byte("data: event1\n\n"))
		w.(http.Flusher).Flush()
		<-release
		w.Write([]byte("data: event2\n\n"))
	}))
	defer backend.Close()
	cfg := &config.Config{Server: config.ServerConfig{Port: 8080}, Backends: []config.BackendConfig{{Name: "a", Address: backend.URL}},
		LoadBalancer: config.LoadBalancerConfig{Strategy: "round_robin"}}
	lb, err := lbp.NewLoadBalancer(cfg)
	if err != nil {
		t.Fatal(err)
	}
	defer lb.Stop()
	first, _ := streamProbe(lb, release)
	t.Logf("first event reached the client before the backend continued => %v ; backend saw Accept-Encoding=%q (client sent none)", first, seenAE)
}
