package verifharness

import (
	"encoding/json"
	"fmt"
	"github.com/0xReLogic/Helios/internal/config"
	"net/http"
	"net/http/httptest"
	"sync/atomic"
	"syscall"
	"testing"
	"time"
)

// ---- sigterm suite (C19, process level): the real binary is told to stop while requests and probes are in flight ----

type SgCase struct {
	Phase     string `json:"phase"`     // idle | headers | body | stuck (the backend never answers: the request cannot finish within the time-out) | partial (the request head is half sent when the signal arrives)
	HangHC    bool   `json:"hanghc"`    // active checks enabled against a health endpoint that never answers
	Timeout   int    `json:"timeout"`   // server.timeouts.shutdown, seconds
	Signals   int    `json:"signals"`   // how many times the signal is sent
	Interrupt bool   `json:"interrupt"` // SIGINT instead of SIGTERM
}

func runSgCase(c SgCase, tag string) (string, map[string]int) {
	stats := map[string]int{}
	relHeaders, relBody := make(chan struct{}), make(chan struct{})
	hcDone := make(chan struct{})
	be := httptest.NewServer(http.HandlerFunc(func(w http.ResponseWriter, r *http.Request) {
		switch r.URL.Path {
		case "/hc":
			if c.HangHC && c.Phase == "partial" {
				// a slow but healthy endpoint: the probe that is in flight when the signal arrives would have succeeded
				time.Sleep(700 * time.Millisecond)
				w.WriteHeader(200)
				return
			}
			if c.HangHC {
				select {
				case <-r.Context().Done():
				case <-hcDone:
				}
				return
			}
			w.WriteHeader(200)
		default:
			<-relHeaders
			w.Header().Set("Content-Type", "application/octet-stream")
			w.Header().Set("Content-Length", "2048")
			w.Write(detBytes(0, 1024))
			w.(http.Flusher).Flush()
			<-relBody
			w.Write(detBytes(1024, 1024))
		}
	}))
	defer be.Close()
	defer close(hcDone)
	cfg := wiConfig(WiCfg{Strategy: "round_robin"}, freePort(), []string{be.URL})
	cfg.Server.Timeouts.Shutdown = c.Timeout
	if c.HangHC {
		cfg.HealthChecks.Active.Enabled, cfg.HealthChecks.Active.Interval, cfg.HealthChecks.Active.Timeout, cfg.HealthChecks.Active.Path = true, 2, 1, "/hc"
	}
	if c.Phase == "partial" {
		// a failed probe ejects for the passive window: a probe cancelled by the shutdown must not cost the request its backend
		cfg.HealthChecks.Passive = config.PassiveHealthCheckConfig{Enabled: true, UnhealthyThreshold: 3, UnhealthyTimeout: 30}
	}
	hp, err := startHelios(cfg, "sg."+tag)
	if err != nil {
		panic(err)
	}
	var progress atomic.Int64
	respCh := make(chan wireResp, 1)
	sendRest := make(chan struct{})
	if c.Phase == "partial" {
		close(relHeaders)
		close(relBody)
		if c.HangHC {
			time.Sleep(2100 * time.Millisecond) // a probe is in flight now (interval 2 s, the endpoint takes 0.7 s)
		}
		go func() {
			req := buildRequest("GET", "/slow", "sg.local", nil, nil, "")
			respCh <- rawExchangeGated(fmt.Sprintf("127.0.0.1:%d", hp.port), req, "GET", 8*time.Second, func(n int) { progress.Store(int64(n)) }, len(req)/2, sendRest)
		}()
		time.Sleep(80 * time.Millisecond)
	}
	if c.Phase != "idle" && c.Phase != "partial" {
		go func() {
			respCh <- rawExchangeP(fmt.Sprintf("127.0.0.1:%d", hp.port), buildRequest("GET", "/slow", "sg.local", nil, nil, ""), "GET", 8*time.Second,
				func(n int) { progress.Store(int64(n)) })
		}()
		time.Sleep(80 * time.Millisecond) // the request is at the backend, which has not answered yet
	}
	if c.Phase == "body" {
		close(relHeaders)
		for i := 0; i < 400 && progress.Load() < 1024; i++ {
			time.Sleep(5 * time.Millisecond)
		}
	}
	sig := syscall.SIGTERM
	if c.Interrupt {
		sig = syscall.SIGINT
	}
	t0 := time.Now()
	for i := 0; i < c.Signals; i++ {
		hp.cmd.Process.Signal(sig)
		time.Sleep(20 * time.Millisecond)
	}
	time.Sleep(150 * time.Millisecond)
	// the exchange is allowed to finish now
	if c.Phase == "partial" {
		close(sendRest)
	}
	if c.Phase == "headers" {
		close(relHeaders)
	}
	if c.Phase != "idle" && c.Phase != "stuck" && c.Phase != "partial" {
		close(relBody)
	}
	if c.Phase == "stuck" {
		defer close(relHeaders)
		defer close(relBody)
	}
	completed := c.Phase == "idle" || c.Phase == "stuck" // nothing to drain / nothing that can be drained in time
	if c.Phase != "idle" && c.Phase != "stuck" {
		select {
		case r := <-respCh:
			completed = r.Status == 200 && len(r.Body) == 2048 && bodyCode(r.Body) == 2048 && !r.Trunc
			stats[fmt.Sprintf("status_%d", r.Status)]++
		case <-time.After(8 * time.Second):
		}
	}
	code, exitMs := -2, int64(-1)
	select {
	case <-hp.exited:
		exitMs = time.Since(t0).Milliseconds()
		code = hp.cmd.ProcessState.ExitCode()
	case <-time.After(time.Duration(c.Timeout)*time.Second + 3*time.Second):
		hp.cmd.Process.Kill()
	}
	// a new connection after the exit must be refused
	phase := map[string]int{"idle": 0, "headers": 1, "body": 2, "stuck": 3, "partial": 1}[c.Phase]
	stats["phase_"+c.Phase]++
	return fmt.Sprintf("mkSgCase %d %s %d %d %s %s %s", phase, B(c.HangHC), c.Timeout, c.Signals, B(completed), ZI(int(exitMs)), ZI(code)), stats
}

func TestSigterm(t *testing.T) {
	cw := NewCaseWriter("sigterm")
	var cases []SgCase
	for _, ph := range []string{"headers", "body", "idle"} {
		for _, hang := range []bool{false, true} {
			cases = append(cases, SgCase{Phase: ph, HangHC: hang, Timeout: 3, Signals: 1})
		}
	}
	cases = append(cases, SgCase{Phase: "body", HangHC: true, Timeout: 2, Signals: 3}, SgCase{Phase: "headers", Timeout: 2, Signals: 2, Interrupt: true})
	// a request whose head is half received when the signal arrives, with and without a probe in flight: it is served
	cases = append(cases, SgCase{Phase: "partial", HangHC: true, Timeout: 3, Signals: 1}, SgCase{Phase: "partial", Timeout: 3, Signals: 1})
	// the shortest shutdown time-out there is: a request that needs a moment is still allowed to finish
	cases = append(cases, SgCase{Phase: "headers", Timeout: 1, Signals: 1}, SgCase{Phase: "body", Timeout: 1, Signals: 1, HangHC: true})
	// a request that cannot finish: the process still stops cleanly when the time-out is over
	cases = append(cases, SgCase{Phase: "stuck", HangHC: true, Timeout: 1, Signals: 1}, SgCase{Phase: "stuck", Timeout: 1, Signals: 1})
	if Tier() == "thorough" {
		for i := 0; i < 24; i++ {
			g := NewRng(Seed() + uint64(7000+i))
			cases = append(cases, SgCase{Phase: []string{"headers", "body", "idle"}[g.Intn(3)], HangHC: g.Bool(), Timeout: g.Range(1, 4), Signals: g.Range(1, 3), Interrupt: g.Bool()})
		}
	}
	if rp := ReplayCases(); rp != nil {
		cases = nil
		for _, raw := range rp {
			var c SgCase
			json.Unmarshal(raw, &c)
			cases = append(cases, c)
		}
	}
	for i, c := range cases {
		if Mine(i) {
			pre, _ := json.Marshal(c)
			cw.Begin(i, "process", pre)
			coq, stats := runSgCase(c, fmt.Sprint(i))
			cw.Put(Case{Idx: i, Kind: "process", Coq: coq, Repl: pre, Stats: stats})
		}
	}
	cw.Close()
}
