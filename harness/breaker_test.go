package verifharness

import (
	"encoding/json"
	"errors"
	"fmt"
	"net/http"
	"syscall"
	"testing"
	"testing/synctest"
	"time"

	"github.com/0xReLogic/Helios/internal/circuitbreaker"
)

// ---- breaker suite: the real CircuitBreaker under virtual time, requests may overlap ----

type BrkOp struct {
	K   string `json:"k"`             // B begin, E end, X complete request, T time
	Rid int    `json:"rid,omitempty"` // request id
	O   string `json:"o,omitempty"`   // outcome: ok | err | panic
	D   int64  `json:"d,omitempty"`
}
type BrkCase struct {
	Max, Fthr, Sthr   int
	Interval, Timeout int64
	Ops               []BrkOp
	Gen               bool   `json:"gen,omitempty"` // ops were produced adaptively by the generator
	Seed              uint64 `json:"seed,omitempty"`
}

type brkPending struct {
	release chan string
	done    chan error // Execute's return (or errPanicked)
}

var errPanicked = errors.New("panicked")
var errBackend = errors.New("backend failure")

type brkRunner struct {
	cb      *circuitbreaker.CircuitBreaker
	pending map[int]*brkPending
	order   []int
	ops     []string
	obs     []string
	stats   map[string]int
	now     int64
}

func brkErrCode(err error) int {
	switch err {
	case circuitbreaker.ErrCircuitBreakerOpen:
		return 1
	case circuitbreaker.ErrTooManyRequests:
		return 2
	}
	return 3
}

func (r *brkRunner) observe(code int) {
	st := int(r.cb.State())
	r.obs = append(r.obs, fmt.Sprintf("(%s, %d)", ZI(code), st))
	if st == 1 {
		r.stats["obs_open"]++
	} else if st == 2 {
		r.stats["obs_halfopen"]++
	}
}

// begin starts Execute in a goroutine; returns true when the protected function is running
func (r *brkRunner) begin(rid int) bool {
	p := &brkPending{release: make(chan string, 1), done: make(chan error, 1)}
	started := make(chan struct{}, 1)
	go func() {
		var err error
		defer func() {
			if rec := recover(); rec != nil {
				err = errPanicked
			}
			p.done <- err
		}()
		err = r.cb.Execute(func() error {
			started <- struct{}{}
			switch <-p.release {
			case "ok":
				return nil
			case "panic":
				// what httputil.ReverseProxy raises when a response dies mid-body, and an ordinary panic
				if rid%2 == 0 {
					panic(http.ErrAbortHandler)
				}
				panic("boom")
			default:
				return errBackend
			}
		})
	}()
	synctest.Wait()
	r.ops = append(r.ops, "BBegin "+ZI(rid))
	select {
	case <-started:
		r.pending[rid] = p
		r.order = append(r.order, rid)
		r.observe(0)
		r.stats["admitted"]++
		return true
	default:
		err := <-p.done
		r.observe(brkErrCode(err))
		r.stats[fmt.Sprintf("rejected_%d", brkErrCode(err))]++
		return false
	}
}

// burst: n callers enter Execute at the same instant (concurrently); the admitted ones are reported first, as the
// sequential model admits first-come
func (r *brkRunner) burst(rid, n int) {
	type att struct {
		p       *brkPending
		started chan struct{}
	}
	var atts []att
	gate := make(chan struct{})
	for i := 0; i < n; i++ {
		a := att{p: &brkPending{release: make(chan string, 1), done: make(chan error, 1)}, started: make(chan struct{}, 1)}
		atts = append(atts, a)
		go func() {
			var err error
			defer func() {
				if rec := recover(); rec != nil {
					err = errPanicked
				}
				a.p.done <- err
			}()
			<-gate
			err = r.cb.Execute(func() error {
				a.started <- struct{}{}
				switch <-a.p.release {
				case "ok":
					return nil
				case "panic":
					panic("boom")
				default:
					return errBackend
				}
			})
		}()
	}
	synctest.Wait()
	close(gate)
	synctest.Wait()
	var admitted []att
	var rejected []error
	for _, a := range atts {
		select {
		case <-a.started:
			admitted = append(admitted, a)
		default:
			rejected = append(rejected, <-a.p.done)
		}
	}
	k := 0
	for _, a := range admitted {
		r.ops = append(r.ops, "BBegin "+ZI(rid+k))
		r.pending[rid+k] = a.p
		r.order = append(r.order, rid+k)
		r.observe(0)
		r.stats["admitted"]++
		k++
	}
	for _, err := range rejected {
		r.ops = append(r.ops, "BBegin "+ZI(rid+k))
		r.observe(brkErrCode(err))
		r.stats[fmt.Sprintf("rejected_%d", brkErrCode(err))]++
		k++
	}
	r.stats["burst"]++
}

func (r *brkRunner) end(rid int, outcome string) bool {
	p, ok := r.pending[rid]
	if !ok {
		return false
	}
	delete(r.pending, rid)
	for i, x := range r.order {
		if x == rid {
			r.order = append(r.order[:i], r.order[i+1:]...)
			break
		}
	}
	p.release <- outcome
	<-p.done
	synctest.Wait()
	r.ops = append(r.ops, fmt.Sprintf("BEnd %s %s", ZI(rid), B(outcome == "ok")))
	r.observe(-1)
	r.stats["end_"+outcome]++
	return true
}

func (r *brkRunner) advance(d int64) {
	time.Sleep(time.Duration(d))
	synctest.Wait()
	r.now += d
	r.ops = append(r.ops, "BAdv "+Z(d))
	r.observe(-1)
	r.stats["advance"]++
}

func runBrkCase(c *BrkCase) (string, map[string]int) {
	r := &brkRunner{pending: map[int]*brkPending{}, stats: map[string]int{}}
	r.cb = circuitbreaker.NewCircuitBreaker(circuitbreaker.Settings{
		Name: "t", MaxRequests: uint32(c.Max), Interval: time.Duration(c.Interval), Timeout: time.Duration(c.Timeout),
		FailureThreshold: uint32(c.Fthr), SuccessThreshold: uint32(c.Sthr),
	})
	t0 := time.Now().UnixNano()
	r.now = t0
	nextRid := 1
	if c.Gen {
		// adaptive generation: the next op depends on which requests are pending
		g := NewRng(c.Seed)
		c.Ops = nil
		n := g.Range(6, 45)
		gaps := []int64{0, 1, c.Interval - 1, c.Interval, c.Interval + 1, c.Timeout - 1, c.Timeout, c.Timeout + 1, 2*c.Timeout + 3, c.Interval / 2}
		badBias := g.Range(20, 80)
		for i := 0; i < n; i++ {
			x := g.Intn(100)
			var op BrkOp
			switch {
			case x < 30:
				o := "ok"
				if g.Chance(badBias) {
					o = "err"
					if g.Chance(25) {
						o = "panic"
					}
				}
				op = BrkOp{K: "X", Rid: nextRid, O: o}
				nextRid++
			case x < 44:
				op = BrkOp{K: "B", Rid: nextRid}
				nextRid++
			case x < 50:
				k := []int{2, 3, 8, 16}[g.Intn(4)]
				op = BrkOp{K: "P", Rid: nextRid, D: int64(k)}
				nextRid += k
			case x < 72 && len(r.order) > 0:
				o := "ok"
				if g.Chance(badBias) {
					o = "err"
					if g.Chance(25) {
						o = "panic"
					}
				}
				op = BrkOp{K: "E", Rid: r.order[g.Intn(len(r.order))], O: o}
			default:
				d := g.PickI64(gaps)
				if d < 0 {
					d = 0
				}
				op = BrkOp{K: "T", D: d}
			}
			c.Ops = append(c.Ops, op)
			r.apply(op)
		}
		c.Gen = false
	} else {
		for _, op := range c.Ops {
			r.apply(op)
		}
	}
	// ---- recovery script (C08): end everything in flight successfully, wait > timeout, then
	// success_threshold successful sequential requests
	recFrom := len(r.ops)
	for len(r.order) > 0 {
		r.end(r.order[0], "ok")
	}
	r.advance(c.Timeout + 1)
	for i := 0; i < c.Sthr; i++ {
		rid := 100000 + i
		if r.begin(rid) {
			r.end(rid, "ok")
		}
	}
	coq := fmt.Sprintf("mkBrkCase %s %s %s %s %s %s %s %s %s", ZI(c.Max), Z(c.Interval), Z(c.Timeout), ZI(c.Fthr), ZI(c.Sthr),
		Z(t0), List(r.ops), List(r.obs), ZI(recFrom))
	return coq, r.stats
}

func (r *brkRunner) apply(op BrkOp) {
	switch op.K {
	case "B":
		r.begin(op.Rid)
	case "E":
		r.end(op.Rid, op.O)
	case "X":
		if r.begin(op.Rid) {
			r.end(op.Rid, op.O)
		}
	case "T":
		r.advance(op.D)
	case "P":
		n := int(op.D)
		if n < 2 {
			n = 2
		}
		r.burst(op.Rid, n)
	}
}

func brkCorpus() []BrkCase {
	s := int64(time.Second)
	return []BrkCase{
		// trip, block, half-open trial, close
		{Max: 1, Fthr: 2, Sthr: 1, Interval: 60 * s, Timeout: 60 * s, Ops: []BrkOp{{K: "X", Rid: 1, O: "err"}, {K: "X", Rid: 2, O: "err"}, {K: "X", Rid: 3, O: "ok"},
			{K: "T", D: 60 * s}, {K: "X", Rid: 4, O: "ok"}, {K: "T", D: 1}, {K: "B", Rid: 5}, {K: "B", Rid: 6}, {K: "E", Rid: 5, O: "ok"}}},
		// lock-out configuration: max_requests 1 < success_threshold 2
		{Max: 1, Fthr: 1, Sthr: 2, Interval: 60 * s, Timeout: 60 * s, Ops: []BrkOp{{K: "X", Rid: 1, O: "err"}, {K: "T", D: 61 * s}, {K: "X", Rid: 2, O: "ok"}, {K: "X", Rid: 3, O: "ok"}, {K: "T", D: 3600 * s}, {K: "X", Rid: 4, O: "ok"}}},
		// failures spaced by exactly interval keep counting; interval+1 resets
		{Max: 2, Fthr: 3, Sthr: 2, Interval: 5 * s, Timeout: 7 * s, Ops: []BrkOp{{K: "X", Rid: 1, O: "err"}, {K: "T", D: 5 * s}, {K: "X", Rid: 2, O: "err"}, {K: "T", D: 5*s + 1}, {K: "X", Rid: 3, O: "err"},
			{K: "T", D: 3 * s}, {K: "X", Rid: 4, O: "panic"}, {K: "T", D: 3 * s}, {K: "X", Rid: 5, O: "err"}}},
		// successes of an aborted half-open episode must not carry over; re-open on trial failure
		{Max: 2, Fthr: 1, Sthr: 2, Interval: 5 * s, Timeout: 5 * s, Ops: []BrkOp{{K: "X", Rid: 1, O: "err"}, {K: "T", D: 5*s + 1}, {K: "X", Rid: 2, O: "ok"}, {K: "X", Rid: 3, O: "err"},
			{K: "T", D: 5*s + 1}, {K: "X", Rid: 4, O: "ok"}, {K: "X", Rid: 5, O: "ok"}}},
		// concurrent callers at the open -> half-open boundary and inside half-open: at most max_requests trials in total
		{Max: 1, Fthr: 1, Sthr: 1, Interval: 5 * s, Timeout: 5 * s, Ops: []BrkOp{{K: "X", Rid: 1, O: "err"}, {K: "T", D: 5*s + 1}, {K: "P", Rid: 10, D: 8}}},
		{Max: 2, Fthr: 1, Sthr: 2, Interval: 5 * s, Timeout: 5 * s, Ops: []BrkOp{{K: "X", Rid: 1, O: "err"}, {K: "T", D: 5*s + 1}, {K: "P", Rid: 10, D: 16}, {K: "P", Rid: 40, D: 4}}},
		{Max: 3, Fthr: 1, Sthr: 3, Interval: 5 * s, Timeout: 5 * s, Ops: []BrkOp{{K: "X", Rid: 1, O: "err"}, {K: "T", D: 5*s + 1}, {K: "B", Rid: 2}, {K: "P", Rid: 10, D: 32}}},
		// panicking trial re-opens
		{Max: 3, Fthr: 1, Sthr: 2, Interval: 5 * s, Timeout: 5 * s, Ops: []BrkOp{{K: "X", Rid: 1, O: "panic"}, {K: "T", D: 5*s + 1}, {K: "X", Rid: 2, O: "panic"}, {K: "X", Rid: 3, O: "ok"}}},
		// overlapping: requests admitted while closed end during half-open
		{Max: 2, Fthr: 2, Sthr: 2, Interval: 9 * s, Timeout: 5 * s, Ops: []BrkOp{{K: "B", Rid: 1}, {K: "B", Rid: 2}, {K: "B", Rid: 3}, {K: "E", Rid: 1, O: "err"}, {K: "E", Rid: 2, O: "err"},
			{K: "T", D: 5*s + 1}, {K: "B", Rid: 4}, {K: "E", Rid: 3, O: "ok"}, {K: "B", Rid: 5}, {K: "B", Rid: 6}, {K: "E", Rid: 4, O: "ok"}}},
	}
}

func TestBreaker(t *testing.T) {
	synctest.Test(t, func(t *testing.T) {
		cw := NewCaseWriter("breaker")
		idx := 0
		emit := func(kind string, c BrkCase) {
			if Mine(idx) {
				if pre, err := json.Marshal(c); err == nil {
					cw.Begin(idx, kind, pre)
				}
				coq, stats := runBrkCase(&c)
				repl, _ := json.Marshal(c)
				cw.Put(Case{Idx: idx, Kind: kind, Coq: coq, Repl: repl, Stats: stats})
			}
			idx++
		}
		if rp := ReplayCases(); rp != nil {
			for _, raw := range rp {
				var c BrkCase
				if err := json.Unmarshal(raw, &c); err != nil {
					panic(err)
				}
				emit("replay", c)
			}
		} else {
			for _, c := range brkCorpus() {
				emit("corpus", c)
			}
			n := 800
			if Tier() == "thorough" {
				n = 16000
			}
			root := NewRng(Seed() + 77)
			durs := []int64{int64(time.Second), 5 * int64(time.Second), 60 * int64(time.Second), 7}
			for i := 0; i < n; i++ {
				g := root.Fork(uint64(i))
				c := BrkCase{Max: g.Range(1, 3), Fthr: g.Range(1, 3), Sthr: g.Range(1, 3), Interval: g.PickI64(durs), Timeout: g.PickI64(durs),
					Gen: true, Seed: g.U64()}
				emit("random", c)
			}
		}
		cw.Close()
		syscall.Exit(0)
	})
}
