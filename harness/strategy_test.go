package verifharness

import (
	"encoding/json"
	"fmt"
	"net"
	"net/http"
	"sync"
	"sync/atomic"
	"testing"

	lbp "github.com/0xReLogic/Helios/internal/loadbalancer"
)

// ---- strategy suite: the five real Strategy objects driven directly ----

type StrOp struct {
	K      string `json:"k"` // add rm flag act pick cpick jump ctr (round-robin counter := Key)
	ID     int    `json:"id,omitempty"`
	W      int    `json:"w,omitempty"`
	F      bool   `json:"f,omitempty"`
	A      int    `json:"a,omitempty"`
	XFF    string `json:"xff,omitempty"`
	XRI    string `json:"xri,omitempty"`
	Remote string `json:"remote,omitempty"`
	Path   string `json:"path,omitempty"`
	G      int    `json:"g,omitempty"` // goroutines
	M      int    `json:"m,omitempty"` // picks per goroutine
	Key    uint64 `json:"key,omitempty"`
	N      int    `json:"n,omitempty"`
}
type StrCase struct {
	Kind int     `json:"kind"` // 0 rr 1 lc 2 wrr 3 iph 4 iphc
	Ops  []StrOp `json:"ops"`
}

func newStrategy(kind int) lbp.Strategy {
	switch kind {
	case 1:
		return lbp.NewLeastConnectionsStrategy()
	case 2:
		return lbp.NewWeightedRoundRobinStrategy()
	case 3:
		return lbp.NewIPHashStrategy()
	case 4:
		return lbp.NewIPHashConsistentStrategy()
	}
	return lbp.NewRoundRobinStrategy()
}

// strTab interns the header strings of one case
type strTab struct {
	idx   map[string]int
	items []string
}

func (t *strTab) get(s string) int {
	if t.idx == nil {
		t.idx = map[string]int{}
	}
	if i, ok := t.idx[s]; ok {
		return i
	}
	t.idx[s] = len(t.items)
	t.items = append(t.items, Bytes(s))
	return len(t.items) - 1
}

func (t *strTab) pick(xff, xri, remote string) string {
	host := remote
	if h, _, err := net.SplitHostPort(remote); err == nil { // oracle for net.SplitHostPort
		host = h
	}
	return fmt.Sprintf("OPickI %d %d %d", t.get(xff), t.get(xri), t.get(host))
}

func mkRequest(op StrOp) *http.Request {
	path := op.Path
	if path == "" {
		path = "/"
	}
	r, err := http.NewRequest("GET", "http://lb.local"+path, nil)
	if err != nil {
		r, _ = http.NewRequest("GET", "http://lb.local/", nil)
	}
	if op.XFF != "" {
		r.Header.Set("X-Forwarded-For", op.XFF)
	}
	if op.XRI != "" {
		r.Header.Set("X-Real-IP", op.XRI)
	}
	r.Header.Set("X-Other", op.Path)
	r.RemoteAddr = op.Remote
	return r
}

func runStrCase(c StrCase) (string, map[string]int) {
	stats := map[string]int{}
	s := newStrategy(c.Kind)
	byID := map[int]*lbp.Backend{}
	idOf := map[*lbp.Backend]int{}
	nadd := 0
	var tab strTab
	var ops, obs []string
	pid := func(b *lbp.Backend) int {
		if b == nil {
			return -1
		}
		return idOf[b]
	}
	for _, op := range c.Ops {
		switch op.K {
		case "add":
			nadd++
			b := &lbp.Backend{Name: fmt.Sprintf("b%d", nadd), Weight: op.W, IsHealthy: true}
			byID[nadd] = b
			idOf[b] = nadd
			s.AddBackend(b)
			ops = append(ops, fmt.Sprintf("OAdd %d %d %s", nadd, nadd, ZI(op.W)))
			obs = append(obs, "[]")
			stats["add"]++
		case "rm":
			if b, ok := byID[op.ID]; ok {
				s.RemoveBackend(b)
				ops = append(ops, fmt.Sprintf("ORemove %d", op.ID))
				obs = append(obs, "[]")
				stats["remove"]++
			}
		case "flag":
			if b, ok := byID[op.ID]; ok {
				b.IsHealthy = op.F
				ops = append(ops, fmt.Sprintf("OFlag %d %s", op.ID, B(op.F)))
				obs = append(obs, "[]")
				stats["flag"]++
			}
		case "act":
			if b, ok := byID[op.ID]; ok {
				atomic.StoreInt32(&b.ActiveConnections, int32(op.A))
				ops = append(ops, fmt.Sprintf("OActive %d %s", op.ID, ZI(op.A)))
				obs = append(obs, "[]")
				stats["active"]++
			}
		case "pick":
			b := s.NextBackend(mkRequest(op))
			ops = append(ops, tab.pick(op.XFF, op.XRI, op.Remote))
			obs = append(obs, fmt.Sprintf("[%s]", ZI(pid(b))))
			stats["pick"]++
			if b == nil {
				stats["pick_nil"]++
			}
		case "cpick":
			counts := make([]int64, nadd+1)
			var wg sync.WaitGroup
			req := mkRequest(op)
			for g := 0; g < op.G; g++ {
				wg.Add(1)
				go func() {
					defer wg.Done()
					for i := 0; i < op.M; i++ {
						if b := s.NextBackend(req); b != nil {
							atomic.AddInt64(&counts[idOf[b]], 1)
						}
					}
				}()
			}
			wg.Wait()
			ops = append(ops, fmt.Sprintf("OCPick %d", op.G*op.M))
			obs = append(obs, ZList(counts[1:]))
			stats["cpick"]++
			stats["cpick_goroutines"] += op.G
		case "ctr":
			if lbp.VerifSetRRCounter(s, op.Key) {
				ops = append(ops, fmt.Sprintf("OCtr %d", op.Key))
				obs = append(obs, "[]")
				stats["ctr"]++
			}
		case "jump":
			r := lbp.VerifJumpHash(op.Key, int32(op.N))
			ops = append(ops, fmt.Sprintf("OJump %d %d", op.Key, op.N))
			obs = append(obs, fmt.Sprintf("[%s]", ZI(int(r))))
			stats["jump"]++
		}
	}
	return fmt.Sprintf("mkStrCase %d %s %s %s", c.Kind, List(tab.items), List(ops), List(obs)), stats
}

var strClients = []string{"10.0.0.1", "10.0.0.2", "192.168.1.77", "203.0.113.9", "2001:db8::1", "2001:db8::2", "fe80::1%eth0",
	"10.0.0.1, 172.16.0.1", " 10.0.0.1", "10.0.0.1 ", ",10.0.0.1", "not-an-ip", "localhost", "[::1]", "1.2.3.4:5678", "\t", "äöü", "a,b,c"}

// adversarial 32-bit keys: one of the first LCG iterates has all-ones / all-zeros top bits
var jumpAdv32 = []uint64{0, 975451704, 1950903408, 2926355112, 2967590605, 3901806816, 3943042309, 161256255, 857322394, 1278998757,
	2396741259, 2818417622, 3514483761, 3936160124, 306526976, 676731651, 1747465927, 2117670602, 3188404878, 3558609553, 748298560,
	811421274, 874543988, 937666702, 1000789416, 1063912130, 1127034844, 173047873, 1132250967, 1729793554, 2327336141, 2688996648,
	3286539235, 3884081822}

func mulInv64(a uint64) uint64 { // inverse of odd a modulo 2^64 (Newton)
	x := a
	for i := 0; i < 6; i++ {
		x *= 2 - a*x
	}
	return x
}

func strCorpus() []StrCase {
	var out []StrCase
	// design-phase witness: SWRR running weights are stale after a removal
	out = append(out, StrCase{Kind: 2, Ops: append([]StrOp{{K: "add", W: 6}, {K: "add", W: 1}, {K: "add", W: 1}, {K: "add", W: 1},
		{K: "pick"}, {K: "pick"}, {K: "pick"}, {K: "rm", ID: 1}}, repOp(StrOp{K: "pick"}, 9)...)})
	// a heavy backend is ejected and then removed while still ejected: the survivors start a fresh cycle all the same
	out = append(out, StrCase{Kind: 2, Ops: append(append([]StrOp{{K: "add", W: 20}, {K: "add", W: 1}, {K: "add", W: 1}}, repOp(StrOp{K: "pick"}, 8)...),
		append([]StrOp{{K: "flag", ID: 1, F: false}, {K: "rm", ID: 1}}, repOp(StrOp{K: "pick"}, 22)...)...)})
	out = append(out, StrCase{Kind: 2, Ops: append(append([]StrOp{{K: "add", W: 1}, {K: "add", W: 9}, {K: "add", W: 2}}, repOp(StrOp{K: "pick"}, 5)...),
		append([]StrOp{{K: "flag", ID: 2, F: false}, {K: "pick"}, {K: "rm", ID: 2}}, repOp(StrOp{K: "pick"}, 12)...)...)})
	// round robin walks past any number of ejected neighbours: six backends, three and four adjacent ones ejected
	out = append(out, StrCase{Kind: 0, Ops: append(append(repOp(StrOp{K: "add", W: 1}, 6), StrOp{K: "flag", ID: 2, F: false}, StrOp{K: "flag", ID: 3, F: false}, StrOp{K: "flag", ID: 4, F: false}),
		append(repOp(StrOp{K: "pick"}, 9), append([]StrOp{{K: "flag", ID: 5, F: false}}, repOp(StrOp{K: "pick"}, 6)...)...)...)})
	// fresh SWRR pool, three periods
	out = append(out, StrCase{Kind: 2, Ops: append([]StrOp{{K: "add", W: 5}, {K: "add", W: 1}, {K: "add", W: 1}}, repOp(StrOp{K: "pick"}, 21)...)})
	// known finding wrr-flap-beyond-two-ratio: five backends of weights 8,1,1,1,1; 88 picks, each with its own eligible set
	// (bit i = backend i+1 eligible), drive the running weights to (-12,16,-6,8,-6); then backend 4 stays ejected and backend 2
	// receives 3 of the next 7 requests: |3*11 - 7*1| = 26 > 24 = 2*W_T (Props/C05.v, C05_wrr_two_ratio_refuted)
	{
		masks := []int{21, 31, 31, 27, 27, 27, 11, 11, 27, 17, 21, 21, 21, 5, 5, 5, 17, 17, 17, 9, 11, 3, 3, 11, 11, 9, 9, 9, 9, 25, 17, 17, 17, 21, 21,
			5, 5, 5, 5, 5, 17, 17, 9, 9, 3, 11, 9, 9, 9, 9, 25, 25, 17, 17, 17, 17, 17, 17, 25, 17, 17, 17, 21, 21, 21, 5, 5, 5, 5, 5, 17, 21, 9, 20, 20,
			11, 9, 9, 9, 9, 9, 9, 13, 21, 21, 21, 21, 21}
		ops := []StrOp{{K: "add", W: 8}, {K: "add", W: 1}, {K: "add", W: 1}, {K: "add", W: 1}, {K: "add", W: 1}}
		cur := 31
		set := func(m int) {
			for i := 0; i < 5; i++ {
				if (cur^m)&(1<<i) != 0 {
					ops = append(ops, StrOp{K: "flag", ID: i + 1, F: m&(1<<i) != 0})
				}
			}
			cur = m
		}
		for _, m := range masks {
			set(m)
			ops = append(ops, StrOp{K: "pick"})
		}
		set(23)
		ops = append(ops, repOp(StrOp{K: "pick"}, 11)...)
		out = append(out, StrCase{Kind: 2, Ops: ops})
	}
	// round robin across the 32-bit boundary of the rotation counter: windows stay exact for pool sizes that do not divide 2^32
	for _, n := range []int{3, 5, 6, 7} {
		ops := repOp(StrOp{K: "add", W: 1}, n)
		ops = append(ops, StrOp{K: "pick"}, StrOp{K: "ctr", Key: 1<<32 - 11})
		ops = append(ops, repOp(StrOp{K: "pick"}, 30)...)
		ops = append(ops, StrOp{K: "flag", ID: 2, F: false}, StrOp{K: "ctr", Key: 1<<32 - 7})
		ops = append(ops, repOp(StrOp{K: "pick"}, 20)...)
		out = append(out, StrCase{Kind: 0, Ops: ops})
	}
	// weighted round robin, concurrent pickers on a fresh pool: exact totals (a pick is one critical section)
	out = append(out, StrCase{Kind: 2, Ops: []StrOp{{K: "add", W: 5}, {K: "add", W: 2}, {K: "add", W: 1}, {K: "add", W: 3}, {K: "add", W: 1},
		{K: "cpick", G: 8, M: 12 * 100}, {K: "cpick", G: 64, M: 12 * 25}, {K: "pick"}, {K: "pick"}, {K: "pick"}}})
	// round robin, concurrent exact counts
	out = append(out, StrCase{Kind: 0, Ops: []StrOp{{K: "add", W: 1}, {K: "add", W: 1}, {K: "add", W: 1}, {K: "cpick", G: 2, M: 3360}, {K: "cpick", G: 8, M: 840},
		{K: "cpick", G: 64, M: 105}, {K: "pick"}, {K: "pick"}, {K: "pick"}, {K: "pick"}}})
	// jump hash on adversarial keys, consecutive bucket counts
	for _, k := range jumpAdv32 {
		var ops []StrOp
		for n := 1; n <= 40; n++ {
			ops = append(ops, StrOp{K: "jump", Key: k, N: n})
		}
		out = append(out, StrCase{Kind: 4, Ops: ops})
	}
	// 64-bit keys whose first / second LCG image has extreme top bits (by inverting the LCG)
	const M = 2862933555777941757
	inv := mulInv64(M)
	for _, top := range []uint64{(1 << 31) - 1, (1 << 31) - 2, 0, 1} {
		target := top<<33 | 12345
		k1 := (target - 1) * inv
		k2 := (k1 - 1) * inv
		for _, k := range []uint64{k1, k2} {
			var ops []StrOp
			for n := 1; n <= 24; n++ {
				ops = append(ops, StrOp{K: "jump", Key: k, N: n})
			}
			out = append(out, StrCase{Kind: 4, Ops: ops})
		}
	}
	return out
}

func repOp(op StrOp, n int) []StrOp {
	out := make([]StrOp, n)
	for i := range out {
		out[i] = op
	}
	return out
}

func genStrCase(g *Rng, i int) StrCase {
	kind := i % 5
	c := StrCase{Kind: kind}
	n := g.Range(1, 8)
	if kind == 2 && g.Chance(50) {
		n = g.Range(2, 4)
	}
	for j := 0; j < n; j++ {
		c.Ops = append(c.Ops, StrOp{K: "add", W: g.Range(1, 6)})
	}
	nadd := n
	flagOff := map[int]bool{} // backends currently marked unhealthy (tracked for round robin)
	pickOp := func() StrOp {
		op := StrOp{K: "pick", Remote: fmt.Sprintf("%s:%d", g.PickS([]string{"10.1.1.1", "10.1.1.2", "[2001:db8::5]", "198.51.100.7"}), g.Range(1024, 65000)),
			Path: g.PickS([]string{"/", "/a/b", "/x?y=1", "/%41"})}
		if kind >= 3 {
			switch g.Intn(10) {
			case 0, 1, 2, 3, 4, 5:
				op.XFF = g.PickS(strClients)
			case 6, 7:
				op.XRI = g.PickS(strClients)
			case 8:
				op.XFF = g.PickS(strClients)
				op.XRI = g.PickS(strClients)
			default:
				if g.Chance(30) {
					op.Remote = g.PickS([]string{"10.9.9.9", "nohostport", "[fe80::1%eth0]:40000", "[fe80::1%eth0]:40001", "localhost:1", "localhost:2"})
				}
			}
		}
		return op
	}
	phases := g.Range(2, 5)
	for p := 0; p < phases; p++ {
		// a stretch of picks
		k := g.Range(3, 30)
		if kind == 2 {
			k = g.Range(8, 60)
		}
		if kind >= 3 {
			// the same small set of clients before and after the change
			cl := make([]StrOp, g.Range(2, 6))
			for x := range cl {
				cl[x] = pickOp()
			}
			for x := 0; x < k; x++ {
				op := cl[g.Intn(len(cl))]
				op.Path = g.PickS([]string{"/", "/p", "/q/r"})
				if op.XFF == "" && op.XRI == "" && g.Chance(50) {
					// same host, different source port
					if h, _, err := net.SplitHostPort(op.Remote); err == nil {
						op.Remote = net.JoinHostPort(h, fmt.Sprint(g.Range(1024, 65000)))
					}
				}
				c.Ops = append(c.Ops, op)
			}
			// change: mostly an append (remap property), sometimes flag / remove
			switch x := g.Intn(10); {
			case x < 6:
				c.Ops = append(c.Ops, StrOp{K: "add", W: g.Range(1, 3)})
				nadd++
			case x < 8:
				c.Ops = append(c.Ops, StrOp{K: "flag", ID: g.Range(1, nadd), F: g.Chance(40)})
			default:
				c.Ops = append(c.Ops, StrOp{K: "rm", ID: g.Range(1, nadd)})
			}
			for x := 0; x < k; x++ {
				op := cl[g.Intn(len(cl))]
				c.Ops = append(c.Ops, op)
			}
			continue
		}
		if kind == 1 {
			for x := 0; x < k; x++ {
				if g.Chance(50) {
					c.Ops = append(c.Ops, StrOp{K: "act", ID: g.Range(1, nadd), A: []int{g.Range(0, 3), g.Range(0, 3), g.Range(0, 3), 99, 100, 101, 250, 4000, 1 << 20, 2147483000}[g.Intn(10)]})
				}
				c.Ops = append(c.Ops, pickOp())
			}
		} else {
			for x := 0; x < k; x++ {
				c.Ops = append(c.Ops, pickOp())
			}
			// concurrent pickers only while every backend is eligible: with skipping, the number of
			// counter ticks a concurrent phase consumes depends on the interleaving
			if kind == 2 && p == 0 && len(flagOff) == 0 && g.Chance(25) {
				w := 0
				for _, o := range c.Ops {
					if o.K == "add" {
						w += o.W
					}
				}
				// the stretch so far is not a whole number of periods in general: the model decides the exact counts; the
				// monitor applies to fresh pools only
				gor := []int{2, 4, 8, 32}[g.Intn(4)]
				c.Ops = append(c.Ops, StrOp{K: "cpick", G: gor, M: w * g.Range(5, 40)})
			}
			if kind == 0 && g.Chance(15) {
				c.Ops = append(c.Ops, StrOp{K: "ctr", Key: uint64(1)<<32 - uint64(g.Range(1, 40))})
				for x := 0; x < 45; x++ {
					c.Ops = append(c.Ops, pickOp())
				}
			}
			if kind == 0 && len(flagOff) == 0 && g.Chance(40) {
				gor := []int{2, 4, 8, 16, 64}[g.Intn(5)]
				c.Ops = append(c.Ops, StrOp{K: "cpick", G: gor, M: 6720 / gor}) // 6720 = 64*105 is a multiple of every pool size 1..8
			}
		}
		if kind == 2 && p == 0 && g.Chance(50) {
			continue // keep a long fresh stretch
		}
		switch x := g.Intn(10); {
		case x < 3:
			c.Ops = append(c.Ops, StrOp{K: "add", W: g.Range(1, 6)})
			nadd++
		case x < 6:
			id := g.Range(1, nadd)
			c.Ops = append(c.Ops, StrOp{K: "rm", ID: id})
			delete(flagOff, id)
		default:
			id, f := g.Range(1, nadd), g.Chance(50)
			c.Ops = append(c.Ops, StrOp{K: "flag", ID: id, F: f})
			if f {
				delete(flagOff, id)
			} else {
				flagOff[id] = true
			}
		}
	}
	if kind == 4 && g.Chance(30) {
		key := g.U64()
		if g.Chance(50) {
			key &= 0xffffffff
		}
		n0 := g.Range(1, 900)
		for n := n0; n < n0+12; n++ {
			c.Ops = append(c.Ops, StrOp{K: "jump", Key: key, N: n})
		}
	}
	return c
}

func TestStrategy(t *testing.T) {
	cw := NewCaseWriter("strategy")
	idx := 0
	emit := func(kind string, c StrCase) {
		if Mine(idx) {
			if pre, err := json.Marshal(c); err == nil {
				cw.Begin(idx, kind, pre)
			}
			coq, stats := runStrCase(c)
			repl, _ := json.Marshal(c)
			cw.Put(Case{Idx: idx, Kind: kind, Coq: coq, Repl: repl, Stats: stats})
		}
		idx++
	}
	if rp := ReplayCases(); rp != nil {
		for _, raw := range rp {
			var c StrCase
			if err := json.Unmarshal(raw, &c); err != nil {
				panic(err)
			}
			emit("replay", c)
		}
	} else {
		for _, c := range strCorpus() {
			emit("corpus", c)
		}
		n := 1000
		if Tier() == "thorough" {
			n = 20000
		}
		root := NewRng(Seed() + 555)
		for i := 0; i < n; i++ {
			emit("random", genStrCase(root.Fork(uint64(i)), i))
		}
	}
	cw.Close()
}
