package verifharness

import (
	"bytes"
	"compress/gzip"
	"encoding/json"
	"fmt"
	"io"
	"net/http"
	"net/http/httptest"
	"os"
	"path/filepath"
	"reflect"
	"regexp"
	"strings"
	"testing"
	"time"

	"github.com/0xReLogic/Helios/internal/config"
	"github.com/0xReLogic/Helios/internal/plugins"
	"gopkg.in/yaml.v3"
)

// ---- config suite (C18): Config.Validate / LoadConfig / start-up of the real binary ----

type CfCase struct {
	Kind string `json:"kind"` // struct | doc
	YAML string `json:"yaml"` // the configuration as YAML text (always what is loaded)
	Doc  string `json:"doc,omitempty"`
	Proc bool   `json:"proc"`
}

// coqOfValue renders a config struct as the record term of Gen/ConfigGen.v (same field order: both come from the struct
// definition; fields of kinds the translator lists as opaque are skipped in both)
func coqOfValue(v reflect.Value) (string, bool) {
	switch v.Kind() {
	case reflect.Int, reflect.Int64:
		return Z(v.Int()), true
	case reflect.String:
		return "\"" + strings.ReplaceAll(v.String(), "\"", "\"\"") + "\"%string", true
	case reflect.Bool:
		return B(v.Bool()), true
	case reflect.Slice:
		var items []string
		for i := 0; i < v.Len(); i++ {
			s, ok := coqOfValue(v.Index(i))
			if !ok {
				return "", false
			}
			items = append(items, s)
		}
		return List(items), true
	case reflect.Struct:
		var fields []string
		for i := 0; i < v.NumField(); i++ {
			s, ok := coqOfValue(v.Field(i))
			if ok {
				fields = append(fields, s)
			}
		}
		return "(mk" + v.Type().Name() + " " + strings.Join(fields, " ") + ")", true
	}
	return "", false
}

// chain options as Chain.v values
func chValOf(x interface{}) ChVal {
	switch v := x.(type) {
	case nil:
		return vNull()
	case bool:
		return ChVal{T: "bool", B: v}
	case int:
		return vInt(int64(v))
	case int64:
		return vInt(v)
	case float64:
		return vFloat(v)
	case string:
		return vStr(v)
	case []interface{}:
		out := ChVal{T: "list"}
		for _, e := range v {
			out.L = append(out.L, chValOf(e))
		}
		return out
	case map[string]interface{}:
		out := ChVal{T: "map"}
		for _, k := range SortedKeysI(v) {
			out.M = append(out.M, ChKV{K: k, V: chValOf(v[k])})
		}
		return out
	}
	return ChVal{T: "str", S: fmt.Sprintf("<%T>", x)}
}
func SortedKeysI(m map[string]interface{}) []string {
	t := map[string]int{}
	for k := range m {
		t[k] = 1
	}
	return SortedKeys(t)
}

func coqChain(pc config.PluginsConfig) string {
	var chain []string
	for _, e := range pc.Chain {
		var opts []string
		for _, k := range SortedKeysI(e.Config) {
			opts = append(opts, "("+Bytes(k)+", "+chValOf(e.Config[k]).coq()+")")
		}
		chain = append(chain, "("+Bytes(e.Name)+", "+List(opts)+")")
	}
	return List(chain)
}

func gunzipOK(b []byte, want []byte) bool {
	zr, err := gzip.NewReader(bytes.NewReader(b))
	if err != nil {
		return false
	}
	d, err := io.ReadAll(zr)
	return err == nil && bytes.Equal(d, want)
}

// runCfCase: load the YAML; if it parses, validate the struct; optionally start the binary on it and serve requests
func runCfCase(c CfCase, tag string) (string, map[string]int) {
	stats := map[string]int{}
	yp := filepath.Join(OutDir(), "cf."+tag+".yaml")
	os.WriteFile(yp, []byte(c.YAML), 0o644)
	defer os.Remove(yp)
	var parsed config.Config
	perr := yaml.Unmarshal([]byte(c.YAML), &parsed)
	lc, lerr := config.LoadConfig(yp)
	// loaded: the file is accepted AND what is started with is what the file says (no value rewritten on the way)
	loaded := lerr == nil && lc != nil && perr == nil && reflect.DeepEqual(*lc, parsed)
	if lerr == nil && !loaded {
		stats["loaded_differs"]++
	}
	parses := perr == nil
	validates := parses && parsed.Validate() == nil
	chainOK := false
	if parses {
		_, err := plugins.BuildChain(parsed.Plugins, http.NotFoundHandler())
		chainOK = err == nil
	}
	proc, served := -1, -1
	runOK := false
	cfStartable := true
	if c.Proc && parses {
		payload := bytes.Repeat([]byte(`{"k":"vvvvvvvvvvvvvvvv"},`), 200)
		be := httptest.NewServer(http.HandlerFunc(func(w http.ResponseWriter, r *http.Request) {
			w.Header().Set("Content-Type", "application/json")
			w.Header().Set("Content-Length", fmt.Sprint(len(payload))) // declared length: the proxy does not flush, gzip may compress
			w.Write(payload)
		}))
		run := parsed
		run.Backends = append([]config.BackendConfig(nil), parsed.Backends...)
		run.Server.Port = freePort()
		run.Server.TLS.Enabled = false
		if run.Metrics.Enabled {
			run.Metrics.Port = freePort()
		}
		if run.AdminAPI.Enabled {
			run.AdminAPI.Port = freePort()
		}
		startable := true
		names := map[string]bool{}
		for i := range run.Backends {
			if _, ok := urlParseOK(run.Backends[i].Address); ok {
				run.Backends[i].Address = be.URL
			} else {
				startable = false // kept as it is: the balancer cannot register it
			}
			if names[run.Backends[i].Name] {
				startable = false
			}
			names[run.Backends[i].Name] = true
		}
		cfStartable = startable
		run.HealthChecks.Active.Enabled = false
		// quiet logs for processes that will serve; a configuration that must be refused at start-up keeps its (possibly
		// omitted) level: the refusal has to be SAID, whatever the level
		if run.Logging.Level == "debug" || run.Logging.Level == "info" || (run.Logging.Level == "" && startable && run.Validate() == nil && chainOK) {
			run.Logging.Level = "error"
		}
		// the binary runs a copy with free ports, the harness backend and no TLS / probes: what it must do is decided by
		// the validity of THAT configuration
		runOK = run.Validate() == nil && chainOK
		hp, err := startHelios(&run, "cf."+tag)
		switch {
		case err == nil:
			proc, served = 1, 1
			for i, ae := range []string{"", "gzip"} {
				req, _ := http.NewRequest("GET", fmt.Sprintf("http://127.0.0.1:%d/x", hp.port), nil)
				req.Header.Set("X-API-Key", "your-secret-api-key")
				req.Header.Set("X-Forwarded-For", fmt.Sprintf("10.9.8.%d", i+1)) // a client of its own: a configured limiter with one token must not refuse the second request
				if ae != "" {
					req.Header.Set("Accept-Encoding", ae)
				}
				tr := &http.Transport{DisableCompression: true}
				resp, err := (&http.Client{Transport: tr, Timeout: 3 * time.Second}).Do(req)
				if err != nil {
					served = 0
					stats["serve_error"]++
					continue
				}
				body, rerr := io.ReadAll(resp.Body)
				resp.Body.Close()
				hasLimit := false
				for _, p := range run.Plugins.Chain {
					if p.Name == "size_limit" {
						hasLimit = true
					}
				}
				// configured plugins may legitimately answer 401 (another API key) or refuse / cut a body (size_limit); otherwise
				// the whole payload must arrive, as sent or as gzip that decodes to it
				ok := resp.StatusCode == 401 || resp.StatusCode == 413 ||
					(resp.StatusCode == 200 && rerr == nil && (bytes.Equal(payload, body) || (resp.Header.Get("Content-Encoding") == "gzip" && gunzipOK(body, payload)))) ||
					(resp.StatusCode == 200 && hasLimit && bytes.HasPrefix(payload, body))
				if !ok {
					served = 0
					stats[fmt.Sprintf("serve_status_%d", resp.StatusCode)]++
				}
				tr.CloseIdleConnections()
			}
			hp.stop()
		case strings.Contains(err.Error(), "exited at start-up"):
			proc = 0
			// a clear error, never a panic, never silence
			if strings.Contains(err.Error(), "panic:") || strings.Contains(err.Error(), "goroutine ") {
				proc = 3
			} else if strings.TrimSpace(strings.TrimPrefix(err.Error(), "helios exited at start-up:")) == "" {
				proc = 4
			}
		default:
			proc = 2
		}
		be.Close()
		stats[fmt.Sprintf("proc_%d", proc)]++
	}
	rec := "None"
	chain := "[]"
	enabled := false
	if parses {
		s, _ := coqOfValue(reflect.ValueOf(parsed))
		rec = "(Some " + s + ")"
		chain = coqChain(parsed.Plugins)
		enabled = parsed.Plugins.Enabled
	}
	stats["kind_"+c.Kind]++
	if validates {
		stats["accepted"]++
	} else {
		stats["rejected"]++
	}
	isDoc := c.Kind == "doc"
	return fmt.Sprintf("mkCfCase %s %s %s %s %s %s %s %s %s %s %s", rec, B(enabled), chain, B(validates), B(loaded), B(chainOK), ZI(proc), ZI(served), B(runOK), B(isDoc), B(cfStartable)), stats
}

// ---- generators ----

func baseConfig() config.Config {
	var c config.Config
	c.Server.Port = 8080
	c.Backends = []config.BackendConfig{{Name: "s1", Address: "http://127.0.0.1:9001", Weight: 1}}
	c.LoadBalancer.Strategy = "round_robin"
	return c
}

func genCfConfig(g *Rng) config.Config {
	c := baseConfig()
	ints := func(xs ...int) int { return xs[g.Intn(len(xs))] }
	nsec := []int{0, 1, 1, 2, 2, 3, 4}[g.Intn(7)]
	for i := 0; i < nsec; i++ {
		switch g.Intn(11) {
		case 0:
			c.Server.Port = ints(-1, 0, 1, 80, 65535, 65536, 70000)
		case 1:
			c.Server.TLS = config.TLSConfig{Enabled: g.Chance(70), CertFile: []string{"", "c.pem"}[g.Intn(2)], KeyFile: []string{"", "k.pem"}[g.Intn(2)]}
		case 2:
			t := &c.Server.Timeouts
			fields := []*int{&t.Read, &t.Write, &t.Idle, &t.Handler, &t.Shutdown, &t.BackendDial, &t.BackendRead, &t.BackendIdle}
			*fields[g.Intn(8)] = ints(-1, 0, 1, 30, -30)
			if g.Chance(40) {
				*fields[g.Intn(8)] = ints(-1, 0, 5)
			}
		case 3:
			c.LoadBalancer.Strategy = []string{"", "round_robin", "least_connections", "weighted_round_robin", "ip_hash", "ip_hash_consistent", "random", "Round_Robin", "round-robin", " ip_hash"}[g.Intn(10)]
			if g.Chance(60) {
				c.LoadBalancer.WebSocketPool = config.WebSocketPoolConfig{Enabled: g.Chance(75), MaxIdle: ints(-1, 0, 1, 5, 10), MaxActive: ints(-1, 0, 1, 5, 10), IdleTimeoutSeconds: ints(-1, 0, 30)}
			}
		case 4:
			c.LoadBalancer.WebSocketPool = config.WebSocketPoolConfig{Enabled: g.Chance(80), MaxIdle: ints(-1, 0, 1, 5, 6, 10), MaxActive: ints(-1, 0, 1, 5, 10), IdleTimeoutSeconds: ints(-1, 0, 30)}
			if g.Chance(30) {
				c.LoadBalancer.Strategy = ""
			}
		case 5:
			c.HealthChecks.Active = config.ActiveHealthCheckConfig{Enabled: g.Chance(80), Interval: ints(-1, 0, 1, 5, 10), Timeout: ints(-1, 0, 1, 4, 5, 6), Path: []string{"", "/health", "health", "/he${x}alth", "/$health"}[g.Intn(5)]}
		case 6:
			c.HealthChecks.Passive = config.PassiveHealthCheckConfig{Enabled: g.Chance(80), UnhealthyThreshold: ints(-1, 0, 1, 3), UnhealthyTimeout: ints(-1, 0, 1, 30)}
		case 7:
			c.RateLimit = config.RateLimitConfig{Enabled: g.Chance(80), MaxTokens: ints(-1, 0, 1, 100), RefillRate: ints(-1, 0, 1, 60)}
		case 8:
			c.CircuitBreaker = config.CircuitBreakerConfig{Enabled: g.Chance(85), MaxRequests: ints(-1, 0, 1, 2, 5), IntervalSeconds: ints(-1, 0, 1, 60), TimeoutSeconds: ints(-1, 0, 1, 30),
				FailureThreshold: ints(-1, 0, 1, 5), SuccessThreshold: ints(-1, 0, 1, 2, 3, 5, 6)}
		case 9:
			c.Metrics = config.MetricsConfig{Enabled: g.Chance(80), Port: ints(-1, 0, 1, 9090, 65535, 65536, 8080), Path: []string{"", "/metrics"}[g.Intn(2)]}
			c.AdminAPI = config.AdminAPIConfig{Enabled: g.Chance(60), Port: ints(-1, 0, 1, 9091, 65535, 65536, 9090, 8080), AuthToken: []string{"", "tok", "tok$en-4f7a", "$2a$10$abcdefghijklmnopqrstuv"}[g.Intn(4)]}
		default:
			c.Logging.Level = []string{"", "debug", "info", "warn", "error", "fatal", "trace", "INFO", "warning"}[g.Intn(9)]
			c.Logging.Format = []string{"", "text", "json", "console", "pretty", "JSON", "logfmt"}[g.Intn(7)]
		}
	}
	if g.Chance(25) { // address forms the documentation does not rule out
		c.Backends[0].Address = []string{"http://backend1", "https://api.internal.example", "http://10.0.0.7", "http://[::1]", "http://backend1/base", "http://[2001:db8::1]:8080", "http://localhost:80/"}[g.Intn(7)]
	}
	if g.Chance(20) {
		switch g.Intn(7) {
		case 5: // a name used twice: every documented constraint holds, but the second one cannot be registered
			c.Backends = append(c.Backends, config.BackendConfig{Name: c.Backends[0].Name, Address: "http://127.0.0.1:9003", Weight: 1})
		case 6: // an address url.Parse rejects
			c.Backends = append(c.Backends, config.BackendConfig{Name: "s3", Address: []string{"http://[::1:8081", "http://bad%zzescape", "http://a b/"}[g.Intn(3)], Weight: 1})
		case 0:
			c.Backends = nil
		case 1:
			c.Backends = append(c.Backends, config.BackendConfig{Name: "", Address: "http://x"})
		case 2:
			c.Backends = append(c.Backends, config.BackendConfig{Name: "s2", Address: ""})
		case 3:
			c.Backends = append(c.Backends, config.BackendConfig{Name: []string{"s2", "$blue", "s$2", "${POOL}-a"}[g.Intn(4)], Address: "http://127.0.0.1:9002", Weight: ints(-1, 0, 5)})
		default:
			c.Backends = append([]config.BackendConfig{{Name: "s0", Address: "http://127.0.0.1:9000", Weight: ints(-2, 0, 1)}}, c.Backends...)
		}
	}
	if g.Chance(25) {
		c.Plugins.Enabled = true
		n := g.Range(1, 3)
		for i := 0; i < n; i++ {
			e := genChEntry(g, g.Chance(85))
			if e.Name == "vprobe" {
				e.Name = "logging"
			}
			m := map[string]interface{}{}
			for _, kv := range e.Opts {
				m[kv.K] = kv.V.goValue()
			}
			c.Plugins.Chain = append(c.Plugins.Chain, config.PluginConfig{Name: e.Name, Config: m})
		}
	}
	return c
}

var yamlBlock = regexp.MustCompile("(?s)```ya?ml\n(.*?)```")

// documented configurations: the shipped files and every YAML block of README / docs (a fragment is put on a minimal base)
func docCases() []CfCase {
	repo := envStr("VERIF_REPO", "/repo")
	var out []CfCase
	for _, f := range []string{"helios.yaml", "helios.docker.yaml"} {
		if b, err := os.ReadFile(filepath.Join(repo, f)); err == nil {
			out = append(out, CfCase{Kind: "doc", YAML: string(b), Doc: f, Proc: true})
		}
	}
	base, _ := yaml.Marshal(baseConfig())
	for _, f := range []string{"README.md", "docs/plugin-development.md", "docs/admin-api-security.md"} {
		b, err := os.ReadFile(filepath.Join(repo, f))
		if err != nil {
			continue
		}
		for i, m := range yamlBlock.FindAllStringSubmatch(string(b), -1) {
			var frag map[string]interface{}
			if yaml.Unmarshal([]byte(m[1]), &frag) != nil || len(frag) == 0 {
				continue
			}
			text := m[1]
			if _, full := frag["backends"]; !full {
				var bm map[string]interface{}
				yaml.Unmarshal(base, &bm)
				for k, v := range frag {
					bm[k] = v
				}
				mb, _ := yaml.Marshal(bm)
				text = string(mb)
			}
			out = append(out, CfCase{Kind: "doc", YAML: text, Doc: fmt.Sprintf("%s#%d", f, i), Proc: true})
		}
	}
	return out
}

func TestConfig(t *testing.T) {
	cw := NewCaseWriter("config")
	idx := 0
	emit := func(kind string, c CfCase) {
		if Mine(idx) {
			if pre, err := json.Marshal(c); err == nil {
				cw.Begin(idx, kind, pre)
			}
			coq, stats := runCfCase(c, fmt.Sprint(idx))
			repl, _ := json.Marshal(c)
			cw.Put(Case{Idx: idx, Kind: kind, Coq: coq, Repl: repl, Stats: stats})
		}
		idx++
	}
	if rp := ReplayCases(); rp != nil {
		for _, raw := range rp {
			var c CfCase
			if err := json.Unmarshal(raw, &c); err != nil {
				panic(err)
			}
			emit("replay", c)
		}
		cw.Close()
		return
	}
	for _, c := range docCases() {
		emit("corpus", c)
	}
	// every documented gzip level, as YAML integer and float, on the real binary with a request that gets compressed
	for lv := -1; lv <= 9; lv++ {
		cfg := baseConfig()
		var level interface{} = lv
		if lv%2 == 0 {
			level = float64(lv)
		}
		cfg.Plugins = config.PluginsConfig{Enabled: true, Chain: []config.PluginConfig{{Name: "gzip", Config: map[string]interface{}{
			"level": level, "min_size": 64, "content_types": []interface{}{"application/json"}}}}}
		y, _ := yaml.Marshal(cfg)
		emit("corpus", CfCase{Kind: "struct", YAML: string(y), Proc: true})
	}
	// accepted by the validator, yet one backend cannot be registered (a name used twice, an address url.Parse rejects, at the
	// first, the middle or the last position): the binary must refuse to start rather than serve with part of its pool
	for _, bs := range [][]config.BackendConfig{
		{{Name: "s1", Address: "http://127.0.0.1:9001", Weight: 1}, {Name: "s1", Address: "http://127.0.0.1:9002", Weight: 1}},
		{{Name: "s1", Address: "http://127.0.0.1:9001", Weight: 1}, {Name: "s2", Address: "http://127.0.0.1:9002", Weight: 1}, {Name: "s1", Address: "http://127.0.0.1:9003", Weight: 2}},
		{{Name: "s1", Address: "http://[::1:8081", Weight: 1}, {Name: "s2", Address: "http://127.0.0.1:9002", Weight: 1}},
		{{Name: "s1", Address: "http://127.0.0.1:9001", Weight: 1}, {Name: "s2", Address: "http://bad%zzescape", Weight: 1}, {Name: "s3", Address: "http://127.0.0.1:9003", Weight: 1}},
		{{Name: "s1", Address: "http://127.0.0.1:9001", Weight: 1}, {Name: "s2", Address: "http://a b/", Weight: 1}},
	} {
		cfg := baseConfig()
		cfg.Backends = bs
		y, _ := yaml.Marshal(cfg)
		emit("corpus", CfCase{Kind: "struct", YAML: string(y), Proc: true})
	}
	// sections that are switched off may carry any port, also one another listener uses
	for _, f := range []func(c *config.Config){
		func(c *config.Config) {
			c.Metrics = config.MetricsConfig{Enabled: false, Port: 9090, Path: "/metrics"}
			c.AdminAPI = config.AdminAPIConfig{Enabled: true, Port: 9090}
		},
		func(c *config.Config) {
			c.Metrics = config.MetricsConfig{Enabled: true, Port: 9091, Path: "/metrics"}
			c.AdminAPI = config.AdminAPIConfig{Enabled: false, Port: 9091}
		},
		func(c *config.Config) {
			c.Metrics = config.MetricsConfig{Enabled: false, Port: 8080}
			c.AdminAPI = config.AdminAPIConfig{Enabled: false, Port: 8080}
		},
	} {
		cfg := baseConfig()
		f(&cfg)
		y, _ := yaml.Marshal(cfg)
		emit("corpus", CfCase{Kind: "struct", YAML: string(y), Proc: true})
	}
	n, nproc := 1500, 32
	if Tier() == "thorough" {
		n, nproc = 30000, 600
	}
	root := NewRng(Seed() + 1818)
	for i := 0; i < n; i++ {
		cfg := genCfConfig(root.Fork(uint64(i)))
		y, _ := yaml.Marshal(cfg)
		emit("random", CfCase{Kind: "struct", YAML: string(y), Proc: i < nproc})
	}
	cw.Close()
}
