package verifharness

import (
	"encoding/json"
	"fmt"
	"net/http"
	"net/http/httptest"
	"regexp"
	"sync"
	"testing"

	"github.com/0xReLogic/Helios/internal/config"
	"github.com/0xReLogic/Helios/internal/logging"
)

// ---- idgen suite (C16 uniqueness): many concurrent generations through the real middleware ----

type IdCase struct {
	Goroutines int `json:"goroutines"`
	Per        int `json:"per"`
}

var idRe = regexp.MustCompile(`^(req|trace)_[0-9a-f]{24}$`)

func runIdCase(c IdCase) (string, map[string]int) {
	cfg := config.LoggingConfig{RequestID: config.RequestIDConfig{Enabled: true}, Trace: config.TraceConfig{Enabled: true}}
	var mu sync.Mutex
	seen := map[string]struct{}{}
	total, wellformed := 0, 0
	h := logging.RequestContextMiddleware(cfg)(http.HandlerFunc(func(w http.ResponseWriter, r *http.Request) {}))
	var wg sync.WaitGroup
	for g := 0; g < c.Goroutines; g++ {
		wg.Add(1)
		go func() {
			defer wg.Done()
			local := make([]string, 0, 2*c.Per)
			for i := 0; i < c.Per; i++ {
				rec := httptest.NewRecorder()
				req := httptest.NewRequest("GET", "/", nil)
				h.ServeHTTP(rec, req)
				local = append(local, rec.Header().Get("X-Request-ID"), rec.Header().Get("X-Trace-ID"))
				// the value handed to the backend must be the same one
				if req.Header.Get("X-Request-ID") != rec.Header().Get("X-Request-ID") {
					local = append(local, "MISMATCH")
				}
			}
			mu.Lock()
			for _, id := range local {
				total++
				if idRe.MatchString(id) {
					wellformed++
				}
				seen[id] = struct{}{}
			}
			mu.Unlock()
		}()
	}
	wg.Wait()
	stats := map[string]int{"generated": total, "distinct": len(seen)}
	return fmt.Sprintf("mkIdCase %d %d %d", total, len(seen), wellformed), stats
}

func TestIdGen(t *testing.T) {
	cw := NewCaseWriter("idgen")
	cases := []IdCase{{Goroutines: 8, Per: 12000}, {Goroutines: 64, Per: 1500}, {Goroutines: 1, Per: 50000}}
	if Tier() == "thorough" {
		cases = append(cases, IdCase{Goroutines: 16, Per: 60000}, IdCase{Goroutines: 128, Per: 8000})
	}
	if rp := ReplayCases(); rp != nil {
		cases = nil
		for _, raw := range rp {
			var c IdCase
			json.Unmarshal(raw, &c)
			cases = append(cases, c)
		}
	}
	for i, c := range cases {
		if Mine(i) {
			if pre, err := json.Marshal(c); err == nil {
				cw.Begin(i, "stress", pre)
			}
			coq, stats := runIdCase(c)
			repl, _ := json.Marshal(c)
			cw.Put(Case{Idx: i, Kind: "stress", Coq: coq, Repl: repl, Stats: stats})
		}
	}
	cw.Close()
}
