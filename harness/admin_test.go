package verifharness

import (
	"encoding/json"
	"fmt"
	"math/big"
	"net"
	"net/http"
	"net/http/httptest"
	"strings"
	"testing"

	"github.com/0xReLogic/Helios/internal/adminapi"
	"github.com/0xReLogic/Helios/internal/config"
	lbp "github.com/0xReLogic/Helios/internal/loadbalancer"
)

// ---- admin suite: adminapi.NewMux on a live balancer (C10; admin glue of C11) ----

type AdmReq struct {
	Method string   `json:"m"`
	Path   string   `json:"p"`
	Authz  []string `json:"authz,omitempty"` // Authorization header values, in order
	Remote string   `json:"remote"`
	XFF    string   `json:"xff,omitempty"`
	XRI    string   `json:"xri,omitempty"`
	Body   string   `json:"body,omitempty"`
}
type AdmCase struct {
	Token    string   `json:"token"`
	Allow    []string `json:"allow"`
	Deny     []string `json:"deny"`
	Strategy string   `json:"strategy"`
	Backends []int    `json:"backends"` // weights of n1..nk
	Reqs     []AdmReq `json:"reqs"`
}

func ipValue(ip net.IP) (int, string) {
	if v4 := ip.To4(); v4 != nil {
		return 4, new(big.Int).SetBytes(v4).String()
	}
	return 6, new(big.Int).SetBytes(ip.To16()).String()
}

// entryCoq reproduces what parseCIDR + IPNet.Contains make of a list entry (net.* are oracles)
func entryCoq(e string) string {
	_, n, err := net.ParseCIDR(e)
	if err != nil {
		ip := net.ParseIP(e)
		if ip == nil {
			return "EBad"
		}
		if ip.To4() != nil {
			_, n, _ = net.ParseCIDR(e + "/32")
		} else {
			_, n, _ = net.ParseCIDR(e + "/128")
		}
		if n == nil {
			return "EBad"
		}
	}
	ones, bits := n.Mask.Size()
	if v4 := n.IP.To4(); v4 != nil {
		if bits == 128 {
			ones -= 96
		}
		if ones < 0 {
			ones = 0
		}
		return fmt.Sprintf("ENet 4 %s %d", new(big.Int).SetBytes(v4).String(), ones)
	}
	return fmt.Sprintf("ENet 6 %s %d", new(big.Int).SetBytes(n.IP.To16()).String(), ones)
}

func peerCoq(remote string) string {
	host := remote
	if h, _, err := net.SplitHostPort(remote); err == nil {
		host = h
	}
	ip := net.ParseIP(host)
	if ip == nil {
		return "AUnparsable"
	}
	f, v := ipValue(ip)
	return fmt.Sprintf("(AIP %d %s)", f, v)
}

func epCoq(path string) string {
	switch path {
	case "/v1/health":
		return "EHealth"
	case "/v1/metrics":
		return "EMetrics"
	case "/v1/backends":
		return "EList"
	case "/v1/backends/add":
		return "EAdd"
	case "/v1/backends/remove":
		return "ERemove"
	case "/v1/strategy":
		return "EStrategy"
	}
	return "EOther"
}

func methodCode(m string) int {
	switch m {
	case "GET":
		return 0
	case "POST":
		return 1
	case "DELETE":
		return 2
	}
	return 3
}

// bodyCoq decodes the JSON body the way the handlers do (encoding/json is an oracle)
func bodyCoq(body string) string {
	var b struct {
		Name     string `json:"name"`
		Address  string `json:"address"`
		Weight   int    `json:"weight"`
		Strategy string `json:"strategy"`
	}
	if err := json.NewDecoder(strings.NewReader(body)).Decode(&b); err != nil {
		return "None"
	}
	_, addrOK := urlParseOK(b.Address)
	return fmt.Sprintf("(Some {| ab_name := %d; ab_name_empty := %s; ab_addr_empty := %s; ab_addr_ok := %s; ab_weight := %s; ab_strategy := %d; ab_strategy_empty := %s |})",
		nameID(b.Name), B(b.Name == ""), B(b.Address == ""), B(addrOK), ZI(b.Weight), strategyCode(b.Strategy), B(b.Strategy == ""))
}

func runAdmCase(c AdmCase) (string, map[string]int) {
	stats := map[string]int{}
	cfg := &config.Config{Server: config.ServerConfig{Port: 8080}, LoadBalancer: config.LoadBalancerConfig{Strategy: c.Strategy},
		AdminAPI: config.AdminAPIConfig{Enabled: true, Port: 9091, AuthToken: c.Token, IPAllowList: c.Allow, IPDenyList: c.Deny}}
	for i, w := range c.Backends {
		cfg.Backends = append(cfg.Backends, config.BackendConfig{Name: fmt.Sprintf("n%d", i+1), Address: fmt.Sprintf("http://b%d.invalid:80", i+1), Weight: w})
	}
	lb, err := lbp.NewLoadBalancer(cfg)
	if err != nil {
		panic(err)
	}
	defer lb.Stop()
	mux := adminapi.NewMux(lb, cfg, lb.GetMetricsCollector())
	var reqs, obs []string
	for _, q := range c.Reqs {
		var body *strings.Reader
		body = strings.NewReader(q.Body)
		r := httptest.NewRequest(q.Method, "http://admin.local"+q.Path, body)
		for _, a := range q.Authz {
			r.Header.Add("Authorization", a)
		}
		if q.XFF != "" {
			r.Header.Set("X-Forwarded-For", q.XFF)
		}
		if q.XRI != "" {
			r.Header.Set("X-Real-IP", q.XRI)
		}
		r.RemoteAddr = q.Remote
		rec := httptest.NewRecorder()
		mux.ServeHTTP(rec, r)
		bodyS := rec.Body.String()
		class := 0
		switch {
		case bodyS == "unauthorized":
			class = 1
		case strings.HasPrefix(bodyS, "Forbidden"):
			class = 2
		case rec.Code == 200 && strings.HasPrefix(strings.TrimSpace(bodyS), "[") || (rec.Code == 200 && strings.TrimSpace(bodyS) == "null"):
			class = 3
		case bodyS == "added":
			class = 4
		case bodyS == "removed":
			class = 5
		case bodyS == "updated":
			class = 6
		case strings.Contains(bodyS, `"status":"ok"`):
			class = 7
		case strings.Contains(bodyS, "total_requests"):
			class = 8
		case rec.Code == 400:
			class = 9
		}
		status := rec.Code
		if epCoq(q.Path) == "EOther" && (status == 404 || status == 301 || status == 405) {
			status, class = 404, 0
		}
		authz := ""
		if len(q.Authz) > 0 {
			authz = q.Authz[0]
		}
		reqs = append(reqs, fmt.Sprintf("{| r_ep := %s; r_method := %d; r_authz := %s; r_peer := %s; r_body := %s |}",
			epCoq(q.Path), methodCode(q.Method), Bytes(authz), peerCoq(q.Remote), bodyCoq(q.Body)))
		items := []string{ZI(status), ZI(class), ZI(strategyCode(cfg.LoadBalancer.Strategy))}
		for _, b := range lb.ListBackends() {
			items = append(items, ZI(nameID(b.Name)), B01(b.Healthy), ZI(int(b.ActiveConnections)), ZI(b.Weight))
		}
		obs = append(obs, List(items))
		stats[fmt.Sprintf("status_%d", rec.Code)]++
		stats["ep_"+epCoq(q.Path)]++
	}
	var allow, deny, bks []string
	for _, e := range c.Allow {
		allow = append(allow, entryCoq(e))
	}
	for _, e := range c.Deny {
		deny = append(deny, entryCoq(e))
	}
	for i, w := range c.Backends {
		bks = append(bks, fmt.Sprintf("(%d, %s)", i+1, ZI(w)))
	}
	return fmt.Sprintf("mkAdmCase %s %s %s %d %s %s %s", Bytes(c.Token), List(allow), List(deny), strategyCode(c.Strategy), List(bks), List(reqs), List(obs)), stats
}

var admEntries = []string{"10.0.0.0/8", "10.1.0.0/16", "192.168.0.0/24", "192.168.0.0/16", "127.0.0.1", "203.0.113.7", "2001:db8::/32", "2001:db8::/64", "::1",
	"::ffff:10.2.0.0/112", "fe80::/10", "10.0.0.0", "0.0.0.0/0", "::/0", "198.51.100.0/25"}
var admBadEntries = []string{"10.0.0.0/33", "300.1.1.1", "abc", "", "10.0.0.1/", "1.2.3", "2001:db8::/129"}
var admPeers = []string{"10.1.2.3", "10.200.0.1", "10.0.0.0", "192.168.0.77", "192.168.5.5", "127.0.0.1", "203.0.113.7", "8.8.8.8", "198.51.100.127", "198.51.100.128",
	"2001:db8::5", "2001:db8:1::5", "::1", "::ffff:10.1.2.3", "::ffff:192.168.77.1", "fe80::1%eth0", "", "@", "notanip", "fe80::1"}

func genAdmCase(g *Rng) AdmCase {
	c := AdmCase{Strategy: strategyNames[g.Intn(5)]}
	longTok := strings.Repeat("0123456789abcdefghijklmnopqrstuvwxyzABCDEFGHIJKLMNOPQRSTUVWXYZ-_=+", 5)[:300]
	switch g.Intn(4) {
	case 0:
		c.Token = ""
	case 1:
		c.Token = "s3cret"
	case 2:
		c.Token = "change-me"
	default:
		c.Token = longTok
	}
	pick := func(n int, bad bool) []string {
		var out []string
		for i := 0; i < n; i++ {
			out = append(out, g.PickS(admEntries))
		}
		if bad {
			out = append(out, g.PickS(admBadEntries))
			g2 := g.Intn(len(out))
			out[g2], out[len(out)-1] = out[len(out)-1], out[g2]
		}
		return out
	}
	switch g.Intn(6) {
	case 0: // no filter
	case 1:
		c.Allow = pick(g.Range(1, 3), false)
	case 2:
		c.Deny = pick(g.Range(1, 3), false)
	case 3, 4:
		c.Allow = pick(g.Range(1, 3), false)
		c.Deny = pick(g.Range(1, 3), false)
	default:
		c.Allow = pick(g.Range(0, 2), g.Chance(50))
		c.Deny = pick(g.Range(0, 2), len(c.Allow) == 0 || g.Chance(50))
	}
	nb := g.Range(1, 3)
	for i := 0; i < nb; i++ {
		c.Backends = append(c.Backends, g.Range(0, 3))
	}
	authzVariants := func() []string {
		t := c.Token
		junk := func(n int) string { return strings.Repeat("x", n) }
		switch g.Intn(16) {
		case 0, 1, 2, 3, 4:
			return []string{"Bearer " + t}
		case 5:
			return nil
		case 6:
			return []string{"Bearer wrong" + t}
		case 7:
			return []string{"bearer " + t}
		case 8:
			return []string{t}
		case 9:
			return []string{"Bearer  " + t}
		case 10:
			return []string{"Bearer " + t + " "}
		case 11:
			if len(t) > 256 {
				return []string{"Bearer " + t[:len(t)-256]}
			}
			return []string{"Bearer " + t[:len(t)/2]}
		case 12:
			return []string{"Bearer " + t + junk([]int{1, 255, 256, 257, 512}[g.Intn(5)])}
		case 13:
			return []string{"Bearer nope", "Bearer " + t}
		case 14:
			return []string{"Bearer " + t, "Bearer nope"}
		default:
			return []string{"Basic " + t}
		}
	}
	n := g.Range(4, 16)
	nextName := nb + 1
	for i := 0; i < n; i++ {
		q := AdmReq{Method: "GET"}
		peer := g.PickS(admPeers)
		switch g.Intn(4) {
		case 0:
			q.Remote = peer // no port
		default:
			q.Remote = net.JoinHostPort(peer, fmt.Sprint(g.Range(1024, 65000)))
		}
		if g.Chance(35) { // forged forwarding headers
			q.XFF = g.PickS([]string{"127.0.0.1", "10.1.2.3", "192.168.0.77", "8.8.8.8", "::1", "10.1.2.3, 8.8.8.8"})
		}
		if g.Chance(15) {
			q.XRI = g.PickS([]string{"127.0.0.1", "10.1.2.3", "203.0.113.7"})
		}
		q.Authz = authzVariants()
		switch x := g.Intn(20); {
		case x < 2:
			q.Path = "/v1/health"
		case x < 4:
			q.Path = "/v1/metrics"
		case x < 8:
			q.Path = "/v1/backends"
			if g.Chance(15) {
				q.Method = "POST"
			}
		case x < 12:
			q.Path, q.Method = "/v1/backends/add", "POST"
			name := nextName
			if g.Chance(25) {
				name = g.Range(1, nextName)
			} else {
				nextName++
			}
			switch g.Intn(8) {
			case 0:
				q.Body = "{"
			case 1:
				q.Body = fmt.Sprintf(`{"address":"http://b%d.invalid"}`, name)
			case 2:
				q.Body = fmt.Sprintf(`{"name":"n%d"}`, name)
			case 3:
				q.Body = fmt.Sprintf(`{"name":"n%d","address":"http://[::1","weight":2}`, name)
			case 4:
				q.Body = fmt.Sprintf(`{"name":"n%d","address":"http://b%d.invalid:80"}`, name, name)
			default:
				q.Body = fmt.Sprintf(`{"name":"n%d","address":"http://b%d.invalid:80","weight":%d}`, name, name, g.Range(0, 4))
			}
			if g.Chance(10) {
				q.Method = "GET"
			}
		case x < 15:
			q.Path, q.Method = "/v1/backends/remove", g.PickS([]string{"POST", "DELETE", "POST", "GET"})
			switch g.Intn(5) {
			case 0:
				q.Body = ""
			case 1:
				q.Body = `{"name":""}`
			default:
				q.Body = fmt.Sprintf(`{"name":"n%d"}`, g.Range(1, nextName))
			}
		case x < 18:
			q.Path, q.Method = "/v1/strategy", "POST"
			switch g.Intn(6) {
			case 0:
				q.Body = `{"strategy":""}`
			case 1:
				q.Body = `{"strategy":"fastest"}`
			case 2:
				q.Body = `nonsense`
			default:
				q.Body = fmt.Sprintf(`{"strategy":"%s"}`, strategyNames[g.Intn(5)])
			}
			if g.Chance(10) {
				q.Method = "PUT"
			}
		default:
			q.Path = g.PickS([]string{"/", "/v1/unknown", "/v1/backends/", "/v1/health/", "/v2/backends", "/v1/backends/add/x"})
		}
		if g.Chance(12) { // methods no endpoint is written for: the token and the filter come first whatever the method
			q.Method = g.PickS([]string{"OPTIONS", "HEAD", "PUT", "PATCH", "TRACE", "OPTIONS"})
		}
		c.Reqs = append(c.Reqs, q)
	}
	return c
}

func admCorpus() []AdmCase {
	return []AdmCase{
		// forged X-Forwarded-For from a denied peer
		{Token: "t", Allow: []string{"10.0.0.0/8"}, Deny: []string{"10.9.0.0/16"}, Strategy: "round_robin", Backends: []int{1}, Reqs: []AdmReq{
			{Method: "GET", Path: "/v1/backends", Authz: []string{"Bearer t"}, Remote: "10.9.1.1:1", XFF: "10.1.1.1"},
			{Method: "GET", Path: "/v1/backends", Authz: []string{"Bearer t"}, Remote: "8.8.8.8:1", XFF: "10.1.1.1", XRI: "10.1.1.1"},
			{Method: "GET", Path: "/v1/backends", Authz: []string{"Bearer t"}, Remote: "10.1.1.1:1", XFF: "8.8.8.8"}}},
		// malformed list entry must not open the API
		{Token: "", Allow: []string{"10.0.0.0/33"}, Strategy: "round_robin", Backends: []int{1}, Reqs: []AdmReq{
			{Method: "GET", Path: "/v1/backends", Remote: "8.8.8.8:1"}, {Method: "POST", Path: "/v1/backends/add", Remote: "10.0.0.1:1", Body: `{"name":"n9","address":"http://x.invalid"}`},
			{Method: "GET", Path: "/v1/health", Remote: "127.0.0.1:1"}}},
		// overlapping deny entries, narrower first; IPv4-mapped peers; zone peers
		{Token: "", Deny: []string{"192.168.0.0/24", "192.168.0.0/16", "fe80::/10"}, Strategy: "ip_hash", Backends: []int{1, 2}, Reqs: []AdmReq{
			{Method: "GET", Path: "/v1/backends", Remote: "192.168.5.5:1"}, {Method: "GET", Path: "/v1/backends", Remote: "[::ffff:192.168.77.1]:1"},
			{Method: "GET", Path: "/v1/backends", Remote: "[fe80::1%eth0]:40000"}, {Method: "GET", Path: "/v1/backends", Remote: "@"}, {Method: "GET", Path: "/v1/backends", Remote: ""},
			{Method: "GET", Path: "/v1/backends", Remote: "172.16.0.1:9"}}},
		// long token: prefix and padded variants
		{Token: strings.Repeat("k", 300), Strategy: "round_robin", Backends: []int{1}, Reqs: []AdmReq{
			{Method: "GET", Path: "/v1/backends", Authz: []string{"Bearer " + strings.Repeat("k", 44)}, Remote: "1.1.1.1:1"},
			{Method: "GET", Path: "/v1/backends", Authz: []string{"Bearer " + strings.Repeat("k", 300) + strings.Repeat("z", 256)}, Remote: "1.1.1.1:1"},
			{Method: "POST", Path: "/v1/backends/add", Authz: []string{"Bearer " + strings.Repeat("k", 44)}, Remote: "1.1.1.1:1", Body: `{"name":"n7","address":"http://x.invalid"}`},
			{Method: "GET", Path: "/v1/backends", Authz: []string{"Bearer " + strings.Repeat("k", 300)}, Remote: "1.1.1.1:1"}}},
		// add with omitted fields after a full add (stale request struct)
		{Token: "", Strategy: "weighted_round_robin", Backends: []int{1}, Reqs: []AdmReq{
			{Method: "POST", Path: "/v1/backends/add", Remote: "1.1.1.1:1", Body: `{"name":"n5","address":"http://b5.invalid:80","weight":5}`},
			{Method: "POST", Path: "/v1/backends/add", Remote: "1.1.1.1:1", Body: `{"name":"n6","address":"http://b6.invalid:80"}`},
			{Method: "POST", Path: "/v1/backends/add", Remote: "1.1.1.1:1", Body: `{"address":"http://b7.invalid:80"}`},
			{Method: "POST", Path: "/v1/backends/remove", Remote: "1.1.1.1:1", Body: `{"name":"n9"}`},
			{Method: "GET", Path: "/v1/backends", Remote: "1.1.1.1:1"}}},
	}
}

func TestAdmin(t *testing.T) {
	cw := NewCaseWriter("admin")
	idx := 0
	emit := func(kind string, c AdmCase) {
		if Mine(idx) {
			if pre, err := json.Marshal(c); err == nil {
				cw.Begin(idx, kind, pre)
			}
			coq, stats := runAdmCase(c)
			repl, _ := json.Marshal(c)
			cw.Put(Case{Idx: idx, Kind: kind, Coq: coq, Repl: repl, Stats: stats})
		}
		idx++
	}
	if rp := ReplayCases(); rp != nil {
		for _, raw := range rp {
			var c AdmCase
			if err := json.Unmarshal(raw, &c); err != nil {
				panic(err)
			}
			emit("replay", c)
		}
	} else {
		for _, c := range admCorpus() {
			emit("corpus", c)
		}
		n := 700
		if Tier() == "thorough" {
			n = 14000
		}
		root := NewRng(Seed() + 31337)
		for i := 0; i < n; i++ {
			emit("random", genAdmCase(root.Fork(uint64(i))))
		}
	}
	cw.Close()
}

var _ = http.StatusOK
