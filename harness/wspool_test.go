package verifharness

import (
	"encoding/json"
	"fmt"
	"net"
	"runtime"
	"sort"
	"strings"
	"sync"
	"sync/atomic"
	"syscall"
	"testing"
	"testing/synctest"
	"time"

	lbp "github.com/0xReLogic/Helios/internal/loadbalancer"
)

// ---- wspool suite (C20 pool half): the real WebSocketPool under virtual time with fake connections ----

type WpOp struct {
	K string `json:"k"`           // put get close adv shutdown stats cput (C concurrent puts of new connections)
	B int    `json:"b,omitempty"` // backend
	C int    `json:"c,omitempty"` // connection: 0 = a brand-new one, k>0 = the k-th oldest connection currently held by clients
	D int64  `json:"d,omitempty"` // ns
}
type WpCase struct {
	MaxIdle int    `json:"maxidle"`
	Timeout int64  `json:"timeout"` // ns
	Ops     []WpOp `json:"ops"`
}

type fakeConn struct {
	id      int
	pooledB int     // backend it was last pooled under
	owner   *WpCase // pools of earlier cases keep their tickers running in the bubble: only this case's connections count
	mu      sync.Mutex
	closed  int
}

// closeHook: armed during a "hook" op, it makes the first Close issued by the pool's clean-up start a concurrent
// Get / Put on another goroutine and gives that goroutine every chance to run before Close returns.  On a pool that
// holds its lock across the clean-up the concurrent call can only complete afterwards.
var closeHook struct {
	mu    sync.Mutex
	owner *WpCase
	b     int    // fire only when the clean-up of THIS backend's pool closes a connection (the per-backend lock is what orders the two)
	armed func() // runs the concurrent operation
	done  *int32
}

func (f *fakeConn) Read(b []byte) (int, error)  { return 0, fmt.Errorf("fake") }
func (f *fakeConn) Write(b []byte) (int, error) { return len(b), nil }
func (f *fakeConn) Close() error {
	f.mu.Lock()
	f.closed++
	f.mu.Unlock()
	if f.id%3 == 0 { // every third connection reports an error on Close (a TLS close_notify to a dead peer): it is closed all the same
		defer func() {}()
	}
	closeHook.mu.Lock()
	var fn func()
	done := closeHook.done
	if closeHook.owner == f.owner && closeHook.b == f.pooledB {
		fn = closeHook.armed
		closeHook.armed = nil
	}
	closeHook.mu.Unlock()
	if fn != nil {
		go func() { fn(); atomic.StoreInt32(done, 1) }()
		for i := 0; i < 2000 && atomic.LoadInt32(done) == 0; i++ {
			runtime.Gosched()
		}
	}
	if f.id%3 == 0 {
		return fmt.Errorf("close %d: broken pipe", f.id)
	}
	return nil
}
func (f *fakeConn) LocalAddr() net.Addr                { return &net.TCPAddr{} }
func (f *fakeConn) RemoteAddr() net.Addr               { return &net.TCPAddr{} }
func (f *fakeConn) SetDeadline(t time.Time) error      { return nil }
func (f *fakeConn) SetReadDeadline(t time.Time) error  { return nil }
func (f *fakeConn) SetWriteDeadline(t time.Time) error { return nil }

const wpCleanupTick = int64(30 * time.Second) // websocket_pool.go: cleanupLoop ticker

func runWpCase(c WpCase) (string, map[string]int) {
	stats := map[string]int{}
	pool := lbp.NewWebSocketPool(c.MaxIdle, 100, time.Duration(c.Timeout))
	synctest.Wait()
	t0 := time.Now().UnixNano()
	now := t0
	var conns []*fakeConn // by id-1
	var held []int        // ids held by clients, oldest first
	var ops, obs []string
	newConn := func() *fakeConn {
		f := &fakeConn{id: len(conns) + 1, owner: &c}
		conns = append(conns, f)
		return f
	}
	pick := func(k int) *fakeConn { // connection for a put/close: held one or a brand-new one
		if k > 0 && len(held) > 0 {
			i := (k - 1) % len(held)
			id := held[i]
			held = append(held[:i], held[i+1:]...)
			return conns[id-1]
		}
		return newConn()
	}
	for _, op := range c.Ops {
		switch op.K {
		case "put":
			f := pick(op.C)
			f.pooledB = op.B
			ok := pool.Put(wpKey(op.B), f)
			ops = append(ops, fmt.Sprintf("WPut %d %d", op.B, f.id))
			obs = append(obs, B01(ok))
			stats["put"]++
			if !ok {
				stats["put_refused"]++
			}
		case "cput":
			// C new connections are returned to backend B by callers that are released at once (the first Puts for a backend are the
			// interesting ones); which of them are accepted does not depend on their order as long as C <= max_idle
			n := op.C
			fs := make([]*fakeConn, n)
			oks := make([]bool, n)
			for i := range fs {
				fs[i] = newConn()
				fs[i].pooledB = op.B
			}
			start := make(chan struct{})
			var wg sync.WaitGroup
			for i := range fs {
				wg.Add(1)
				go func(i int) { defer wg.Done(); <-start; oks[i] = pool.Put(wpKey(op.B), fs[i]) }(i)
			}
			synctest.Wait()
			close(start)
			wg.Wait()
			for i, f := range fs {
				ops = append(ops, fmt.Sprintf("WPut %d %d", op.B, f.id))
				obs = append(obs, B01(oks[i]))
			}
			stats["cput"]++
		case "get":
			got := pool.Get(wpKey(op.B))
			ops = append(ops, fmt.Sprintf("WGet %d", op.B))
			id := -1
			if got != nil {
				id = got.(*fakeConn).id
				held = append(held, id)
				stats["get_hit"]++
			}
			obs = append(obs, ZI(id))
			stats["get"]++
		case "close":
			f := pick(op.C)
			pool.Close(wpKey(op.B), f)
			ops = append(ops, fmt.Sprintf("WClose %d %d", op.B, f.id))
			obs = append(obs, "0")
			stats["close"]++
		case "stats":
			i, a := pool.Stats(wpKey(op.B))
			ops = append(ops, fmt.Sprintf("WStats %d", op.B))
			obs = append(obs, ZI(i*1000+a))
		case "shutdown":
			pool.Shutdown()
			ops = append(ops, "WShutdown")
			obs = append(obs, "0")
			stats["shutdown"]++
		case "hook":
			// a Get (C=0) or a Put of a new connection (C=1) that starts while the ticker's clean-up is closing a stale connection
			next := t0 + ((now-t0)/wpCleanupTick+1)*wpCleanupTick
			var done int32
			var gotID = -2
			var putOK bool
			var putConn *fakeConn
			if op.C == 1 {
				putConn = newConn()
				putConn.pooledB = op.B
			}
			closeHook.mu.Lock()
			closeHook.done = &done
			closeHook.owner = &c
			closeHook.b = op.B
			closeHook.armed = func() {
				if op.C == 2 { // Shutdown arrives while the clean-up is in the middle of closing a stale connection
					pool.Shutdown()
					gotID = -4
				} else if op.C == 1 {
					putOK = pool.Put(wpKey(op.B), putConn)
					gotID = -3
				} else if got := pool.Get(wpKey(op.B)); got != nil {
					gotID = got.(*fakeConn).id
				} else {
					gotID = -1
				}
			}
			closeHook.mu.Unlock()
			time.Sleep(time.Duration(next - now))
			synctest.Wait()
			closeHook.mu.Lock()
			closeHook.armed = nil
			closeHook.mu.Unlock()
			ops = append(ops, "WAdvance "+Z(next-now), "WCleanup")
			obs = append(obs, "0", "0")
			now = next
			stats["cleanup"]++
			switch {
			case gotID == -4:
				ops = append(ops, "WShutdown")
				obs = append(obs, "0")
				stats["hook_shutdown"]++
			case gotID == -3:
				ops = append(ops, fmt.Sprintf("WPut %d %d", op.B, putConn.id))
				obs = append(obs, B01(putOK))
				stats["hook_put"]++
			case gotID >= -1:
				ops = append(ops, fmt.Sprintf("WGet %d", op.B))
				obs = append(obs, ZI(gotID))
				if gotID > 0 {
					held = append(held, gotID)
				}
				stats["hook_get"]++
			}
		case "adv":
			time.Sleep(time.Duration(op.D))
			synctest.Wait()
			end := now + op.D
			for { // the pool's own ticker runs cleanup at t0 + k*30s
				next := t0 + ((now-t0)/wpCleanupTick+1)*wpCleanupTick
				if next > end {
					break
				}
				ops = append(ops, "WAdvance "+Z(next-now), "WCleanup")
				obs = append(obs, "0", "0")
				now = next
				stats["cleanup"]++
			}
			if end > now {
				ops = append(ops, "WAdvance "+Z(end-now))
				obs = append(obs, "0")
			}
			now = end
			stats["advance"]++
		}
	}
	// final state of every connection: how often it was closed, and who holds it
	var closed []int
	multi := 0
	for _, f := range conns {
		f.mu.Lock()
		if f.closed > 0 {
			closed = append(closed, f.id)
		}
		if f.closed > 1 {
			multi++
		}
		f.mu.Unlock()
	}
	sort.Ints(closed)
	sort.Ints(held)
	return fmt.Sprintf("mkWpCase %d %s %s %s %s %s", c.MaxIdle, Z(c.Timeout), List(ops), List(obs), IList(closed), IList(held)), stats
}

// wpKey: the pool's key of backend b.  Backends 100 and up (the ones whose first connections are returned by several callers at
// once) have very long names: looking such a key up takes long enough for the callers to really overlap inside Put.
var wpLongTail = strings.Repeat("k", 1<<20)

func wpKey(b int) string {
	if b >= 100 {
		return fmt.Sprintf("b%d-", b) + wpLongTail
	}
	return fmt.Sprintf("b%d", b)
}

func genWpCase(g *Rng) WpCase {
	s := int64(time.Second)
	c := WpCase{MaxIdle: []int{0, 1, 2, 2, 3}[g.Intn(5)], Timeout: []int64{0, 1, s, 20 * s, 30 * s, 45 * s, 300 * s}[g.Intn(7)]}
	nb := g.Range(1, 2)
	n := g.Range(5, 40)
	gaps := []int64{0, 1, c.Timeout - 1, c.Timeout, c.Timeout + 1, wpCleanupTick - 1, wpCleanupTick, wpCleanupTick + 1, 2*wpCleanupTick + 5, c.Timeout / 2}
	for i := 0; i < n; i++ {
		b := g.Range(1, nb)
		switch x := g.Intn(100); {
		case x < 30:
			c.Ops = append(c.Ops, WpOp{K: "put", B: b, C: g.Intn(4)})
			if g.Chance(60) {
				c.Ops = append(c.Ops, WpOp{K: "stats", B: b})
			}
		case x < 58:
			c.Ops = append(c.Ops, WpOp{K: "get", B: b})
		case x < 66:
			c.Ops = append(c.Ops, WpOp{K: "close", B: b, C: g.Range(1, 3)})
		case x < 74:
			c.Ops = append(c.Ops, WpOp{K: "stats", B: b})
		case x < 78:
			c.Ops = append(c.Ops, WpOp{K: "shutdown"})
		case x < 84:
			c.Ops = append(c.Ops, WpOp{K: "hook", B: b, C: g.Intn(3)})
		default:
			d := g.PickI64(gaps)
			if d < 0 {
				d = 0
			}
			c.Ops = append(c.Ops, WpOp{K: "adv", D: d})
		}
	}
	return c
}

func TestWsPool(t *testing.T) {
	synctest.Test(t, func(t *testing.T) {
		cw := NewCaseWriter("wspool")
		idx := 0
		emit := func(kind string, c WpCase) {
			if Mine(idx) {
				if pre, err := json.Marshal(c); err == nil {
					cw.Begin(idx, kind, pre)
				}
				coq, stats := runWpCase(c)
				repl, _ := json.Marshal(c)
				cw.Put(Case{Idx: idx, Kind: kind, Coq: coq, Repl: repl, Stats: stats})
			}
			idx++
		}
		if rp := ReplayCases(); rp != nil {
			for _, raw := range rp {
				var c WpCase
				if err := json.Unmarshal(raw, &c); err != nil {
					panic(err)
				}
				emit("replay", c)
			}
		} else {
			s := int64(time.Second)
			corpus := []WpCase{
				{MaxIdle: 2, Timeout: 20 * s, Ops: []WpOp{{K: "put", B: 1}, {K: "put", B: 1}, {K: "put", B: 1}, {K: "stats", B: 1}, {K: "get", B: 1}, {K: "get", B: 1}, {K: "get", B: 1}}},
				{MaxIdle: 2, Timeout: 20 * s, Ops: []WpOp{{K: "put", B: 1}, {K: "adv", D: 20 * s}, {K: "put", B: 1}, {K: "adv", D: 1}, {K: "get", B: 1}, {K: "get", B: 1}, {K: "stats", B: 1}}},
				{MaxIdle: 3, Timeout: 45 * s, Ops: []WpOp{{K: "put", B: 1}, {K: "put", B: 2}, {K: "adv", D: 31 * s}, {K: "put", B: 1}, {K: "adv", D: 30 * s}, {K: "stats", B: 1}, {K: "stats", B: 2}, {K: "shutdown"}, {K: "get", B: 1}}},
				// a stale and a fresh connection pooled; a Get / a Put arrives while the clean-up closes the stale one
				{MaxIdle: 3, Timeout: 20 * s, Ops: []WpOp{{K: "put", B: 1}, {K: "adv", D: 15 * s}, {K: "put", B: 1}, {K: "hook", B: 1, C: 0}, {K: "stats", B: 1}, {K: "get", B: 1}, {K: "get", B: 1}}},
				{MaxIdle: 3, Timeout: 20 * s, Ops: []WpOp{{K: "put", B: 1}, {K: "adv", D: 15 * s}, {K: "put", B: 1}, {K: "hook", B: 1, C: 1}, {K: "stats", B: 1}, {K: "get", B: 1}, {K: "get", B: 1}, {K: "shutdown"}}},
				{MaxIdle: 1, Timeout: 300 * s, Ops: []WpOp{{K: "put", B: 1}, {K: "get", B: 1}, {K: "put", B: 1, C: 1}, {K: "get", B: 1}, {K: "close", B: 1, C: 1}, {K: "stats", B: 1}}},
				// Shutdown while the clean-up closes the only (stale) connection of one backend; another backend keeps fresh ones
				{MaxIdle: 3, Timeout: 20 * s, Ops: []WpOp{{K: "put", B: 1}, {K: "adv", D: 15 * s}, {K: "put", B: 2}, {K: "put", B: 2}, {K: "hook", B: 1, C: 2}, {K: "stats", B: 1}, {K: "stats", B: 2}, {K: "get", B: 2}}},
				// five pooled connections of which two report an error on Close: Shutdown closes every one of them
				{MaxIdle: 3, Timeout: 300 * s, Ops: []WpOp{{K: "put", B: 1}, {K: "put", B: 1}, {K: "put", B: 1}, {K: "put", B: 2}, {K: "put", B: 2}, {K: "put", B: 2}, {K: "shutdown"}, {K: "stats", B: 1}, {K: "stats", B: 2}, {K: "get", B: 1}, {K: "get", B: 2}}},
			}
			// the first connections returned for a backend arrive together: every accepted one is pooled (counted, handed out again,
			// closed by Shutdown); 150 backends, eight callers each
			{
				c := WpCase{MaxIdle: 8, Timeout: 300 * s}
				for b := 100; b < 250; b++ {
					c.Ops = append(c.Ops, WpOp{K: "cput", B: b, C: 8})
				}
				for b := 100; b < 250; b += 10 {
					c.Ops = append(c.Ops, WpOp{K: "stats", B: b}) // not a get: which of the eight comes out first depends on their order of arrival
				}
				c.Ops = append(c.Ops, WpOp{K: "shutdown"})
				corpus = append(corpus, c)
			}
			for _, c := range corpus {
				emit("corpus", c)
			}
			n := 1200
			if Tier() == "thorough" {
				n = 24000
			}
			root := NewRng(Seed() + 2020)
			for i := 0; i < n; i++ {
				emit("random", genWpCase(root.Fork(uint64(i))))
			}
		}
		cw.Close()
		syscall.Exit(0)
	})
}
