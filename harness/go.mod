module github.com/0xReLogic/Helios/verifharness

go 1.26

require (
	github.com/0xReLogic/Helios v0.0.0
	gopkg.in/yaml.v3 v3.0.1
)

require (
	github.com/mattn/go-colorable v0.1.13 // indirect
	github.com/mattn/go-isatty v0.0.19 // indirect
	github.com/rs/zerolog v1.34.0 // indirect
	golang.org/x/sys v0.12.0 // indirect
)

replace github.com/0xReLogic/Helios => /repo
