module github.com/0xReLogic/Helios/verifharness

go 1.26

require github.com/0xReLogic/Helios v0.0.0

replace github.com/0xReLogic/Helios => /repo
