package verifharness

import (
	"bytes"
	"encoding/json"
	"fmt"
	"io"
	"net"
	"net/http"
	"net/http/httptest"
	"sort"
	"strconv"
	"strings"
	"sync"
	"testing"
	"time"

	"github.com/0xReLogic/Helios/internal/config"
	"github.com/0xReLogic/Helios/internal/plugins"
)

// ---- writer suite: plugin chains around a scripted handler over a real connection ----

type WrOp struct {
	K    string `json:"k"` // set del head write flush
	Key  int    `json:"key,omitempty"`
	Val  int    `json:"val,omitempty"`
	Code int    `json:"code,omitempty"`
	N    int    `json:"n,omitempty"`
}
type WrPlug struct {
	Name    string `json:"name"` // logging size_limit gzip
	MaxReq  int    `json:"maxreq,omitempty"`
	MaxResp int    `json:"maxresp,omitempty"`
	GzMin   int    `json:"gzmin,omitempty"`
	GzLevel int    `json:"gzlevel,omitempty"`
	GzTypes []int  `json:"gztypes,omitempty"` // indices into wrCT used as configured prefixes
	GzInt   bool   `json:"gzint,omitempty"`   // numeric options given as int (YAML style) instead of float64
}
type WrCase struct {
	Chain      []WrPlug `json:"chain"`
	AE         string   `json:"ae"`
	Method     string   `json:"method"`
	ReqLen     int      `json:"reqlen"`
	ReqFraming string   `json:"reqframing"` // "" | cl | chunked
	Script     []WrOp   `json:"script"`
	// Pre: an exchange made first through the SAME built chain (its answer is not compared): wrappers
	// must not carry state from one exchange into the next
	Pre []WrOp `json:"pre,omitempty"`
	// AbortOnErr: the handler does what httputil.ReverseProxy does when a Write fails: panic(http.ErrAbortHandler)
	AbortOnErr bool `json:"abortonerr,omitempty"`
	// ReqHdrs: further request headers; none of them changes what the plugins owe the client
	ReqHdrs [][2]string `json:"reqhdrs,omitempty"`
	// HalfClose: the client closes its sending side once the request is out (it still reads); the handler waits until the server has
	// noticed (the request context ends) and answers then: the answer is still owed in full
	HalfClose bool `json:"halfclose,omitempty"`
}

var wrCT = []string{"application/json", "text/html; charset=utf-8", "text/plain", "image/png", "application/json; charset=utf-8", "text/css", "application/octet-stream"}
var wrCTPrefixes = []string{"application/json", "text/html", "text/plain", "image/", "text/"}

func hdrName(k int) string {
	switch k {
	case 1:
		return "Content-Type"
	case 2:
		return "Content-Length"
	case 3:
		return "Content-Encoding"
	}
	return fmt.Sprintf("X-H%d", k)
}
func hdrVal(k, v int) string {
	switch k {
	case 1:
		return wrCT[v%len(wrCT)]
	case 2:
		return strconv.Itoa(v)
	case 3:
		switch v {
		case 1:
			return "gzip"
		case 3:
			return "zstd"
		case 4:
			return "aes128gcm"
		}
		return "br"
	}
	return strconv.Itoa(v)
}

type handlerProbe struct {
	mu     sync.Mutex
	called bool
	read   int
}

func scriptedHandler(script []WrOp, probe *handlerProbe) http.Handler {
	return scriptedHandler2(script, nil, probe)
}

// scriptedHandler2 plays [pre] for requests to /pre and [script] otherwise
func scriptedHandler2(script, pre []WrOp, probe *handlerProbe) http.Handler {
	return scriptedHandler3(script, pre, probe, false)
}

func scriptedHandler3(script, pre []WrOp, probe *handlerProbe, abortOnErr bool) http.Handler {
	return http.HandlerFunc(func(w http.ResponseWriter, r *http.Request) {
		script := script
		if r.URL.Path == "/pre" {
			script = pre
		}
		b, _ := io.ReadAll(r.Body)
		if r.Header.Get("X-Half-Close") != "" && r.URL.Path != "/pre" {
			select {
			case <-r.Context().Done():
			case <-time.After(800 * time.Millisecond):
			}
		}
		probe.mu.Lock()
		probe.called = true
		probe.read = len(b)
		probe.mu.Unlock()
		off := 0
		for _, op := range script {
			switch op.K {
			case "set":
				w.Header().Set(hdrName(op.Key), hdrVal(op.Key, op.Val))
			case "del":
				w.Header().Del(hdrName(op.Key))
			case "head":
				w.WriteHeader(op.Code)
			case "write":
				if _, err := w.Write(detBytes(off, op.N)); err != nil && abortOnErr && r.URL.Path != "/pre" {
					panic(http.ErrAbortHandler)
				}
				off += op.N
			case "copy": // what io.Copy / http.ServeContent do: through the writer's ReadFrom when it has one, one Write otherwise (N <= 32 KiB)
				if _, err := io.Copy(w, struct{ io.Reader }{bytes.NewReader(detBytes(off, op.N))}); err != nil && abortOnErr && r.URL.Path != "/pre" {
					panic(http.ErrAbortHandler)
				}
				off += op.N
			case "flush":
				if f, ok := w.(http.Flusher); ok {
					f.Flush()
				}
			case "cflush": // the way httputil.ReverseProxy flushes: through a ResponseController (prefers FlushError, follows Unwrap)
				http.NewResponseController(w).Flush()
			case "abort": // what httputil.ReverseProxy does when the backend dies mid-body
				panic(http.ErrAbortHandler)
			}
		}
	})
}

func buildWrChain(c WrCase, inner http.Handler) (http.Handler, error) {
	var pcs []config.PluginConfig
	for _, p := range c.Chain {
		switch p.Name {
		case "logging":
			pcs = append(pcs, config.PluginConfig{Name: "logging"})
		case "size_limit":
			pcs = append(pcs, config.PluginConfig{Name: "size_limit", Config: map[string]interface{}{"max_request_body": p.MaxReq, "max_response_body": float64(p.MaxResp)}})
		case "gzip":
			var types []interface{}
			for _, i := range p.GzTypes {
				types = append(types, wrCTPrefixes[i%len(wrCTPrefixes)])
			}
			m := map[string]interface{}{"level": float64(p.GzLevel), "min_size": float64(p.GzMin), "content_types": types}
			if p.GzInt {
				m["level"], m["min_size"] = p.GzLevel, p.GzMin
			}
			pcs = append(pcs, config.PluginConfig{Name: "gzip", Config: m})
		}
	}
	return plugins.BuildChain(config.PluginsConfig{Enabled: len(pcs) > 0, Chain: pcs}, inner)
}

type wrView struct {
	called  bool
	read    int
	resp    wireResp
	decoded int
	ce      int
	ct      int
}

func wrExchange(h http.Handler, probe *handlerProbe, c WrCase) wrView {
	srv := httptest.NewServer(h)
	defer srv.Close()
	if c.Pre != nil {
		rawExchange(srv.Listener.Addr().String(), buildRequest("GET", "/pre", "wr.local", [][2]string{{"Accept-Encoding", "gzip"}}, nil, ""), "GET", 3*time.Second)
		probe.mu.Lock()
		probe.called, probe.read = false, 0
		probe.mu.Unlock()
	}
	var hdrs [][2]string
	if c.AE != "\x00" {
		hdrs = append(hdrs, [2]string{"Accept-Encoding", c.AE})
	}
	hdrs = append(hdrs, c.ReqHdrs...)
	var body []byte
	if c.ReqFraming != "" {
		body = detBytes(7, c.ReqLen)
	}
	if c.HalfClose {
		hdrs = append(hdrs, [2]string{"X-Half-Close", "1"})
		rawAfterSend = func(conn net.Conn) {
			if tc, ok := conn.(*net.TCPConn); ok {
				tc.CloseWrite()
			}
		}
	}
	resp := rawExchange(srv.Listener.Addr().String(), buildRequest(c.Method, "/x", "wr.local", hdrs, body, c.ReqFraming), c.Method, 3*time.Second)
	rawAfterSend = nil
	probe.mu.Lock()
	v := wrView{called: probe.called, read: probe.read, resp: resp}
	probe.mu.Unlock()
	v.ce = -1
	switch resp.Header.Get("Content-Encoding") {
	case "":
	case "gzip":
		v.ce = 1
	case "zstd":
		v.ce = 3
	case "aes128gcm":
		v.ce = 4
	default:
		v.ce = 2
	}
	v.ct = -1
	if ct := resp.Header.Get("Content-Type"); ct != "" {
		v.ct = -2
		for i, t := range wrCT {
			if t == ct {
				v.ct = i
			}
		}
	}
	payload := resp.Body
	v.decoded = -1
	if v.ce == 1 && len(payload) > 0 {
		if d, err := gunzipAll(payload); err == nil {
			payload = d
		} else {
			payload = nil
			v.decoded = -3 // cannot be decoded under the received Content-Encoding
		}
	}
	if v.decoded != -3 && bytes.Equal(payload, detBytes(0, len(payload))) {
		v.decoded = len(payload)
	}
	if v.decoded == -3 {
		v.decoded = -1
	}
	return v
}

func sameWire(a, b wireResp) bool {
	if a.Status != b.Status || !bytes.Equal(a.Body, b.Body) || a.Framing != b.Framing || a.Trunc != b.Trunc || len(a.Interim) != len(b.Interim) {
		return false
	}
	for i := range a.Interim {
		if a.Interim[i] != b.Interim[i] || strings.Join(canonHeaders(a.InterimH[i], "Date"), "\n") != strings.Join(canonHeaders(b.InterimH[i], "Date"), "\n") {
			return false
		}
	}
	return strings.Join(canonHeaders(a.Header, "Date"), "\n") == strings.Join(canonHeaders(b.Header, "Date"), "\n")
}

func runWrCase(c WrCase) (string, map[string]int) {
	stats := map[string]int{}
	p1, p2 := &handlerProbe{}, &handlerProbe{}
	chained, err := buildWrChain(c, scriptedHandler3(c.Script, c.Pre, p1, c.AbortOnErr))
	if err != nil {
		panic(fmt.Sprintf("chain: %v", err))
	}
	through := wrExchange(chained, p1, c)
	direct := wrExchange(scriptedHandler3(c.Script, c.Pre, p2, c.AbortOnErr), p2, c)
	same := sameWire(through.resp, direct.resp)
	// observation vector
	obs := []int{b2i(through.called), through.read, b2i(same), through.resp.Status, through.ct, through.ce, through.decoded, len(through.resp.Interim)}
	obs = append(obs, through.resp.Interim...)
	var app [][2]int
	for k, vs := range through.resp.Header {
		if strings.HasPrefix(k, "X-H") {
			kk, _ := strconv.Atoi(k[3:])
			vv, _ := strconv.Atoi(vs[0])
			app = append(app, [2]int{kk, vv})
		}
	}
	sort.Slice(app, func(i, j int) bool { return app[i][0] < app[j][0] })
	obs = append(obs, len(app))
	for _, kv := range app {
		obs = append(obs, kv[0], kv[1])
	}
	// Coq rendering
	var chain []string
	for _, p := range c.Chain {
		switch p.Name {
		case "logging":
			chain = append(chain, "PLogging")
		case "size_limit":
			chain = append(chain, fmt.Sprintf("PSizeLimit %d %d", p.MaxReq, p.MaxResp))
		case "gzip":
			var idx []int
			for i, ct := range wrCT { // content types of the table that match a configured prefix
				for _, pi := range p.GzTypes {
					if strings.HasPrefix(ct, wrCTPrefixes[pi%len(wrCTPrefixes)]) {
						idx = append(idx, i)
						break
					}
				}
			}
			chain = append(chain, fmt.Sprintf("PGzip {| gz_min := %d; gz_cap := 10485760; gz_types := %s |}", p.GzMin, IList(idx)))
		}
	}
	var script []string
	for _, op := range c.Script {
		switch op.K {
		case "set":
			v := op.Val
			if op.Key == 1 {
				v = op.Val % len(wrCT)
			}
			script = append(script, fmt.Sprintf("CSet %d %d", op.Key, v))
		case "del":
			script = append(script, fmt.Sprintf("CDel %d", op.Key))
		case "head":
			script = append(script, fmt.Sprintf("CHead %d", op.Code))
		case "write", "copy":
			script = append(script, fmt.Sprintf("CWrite (PRaw %d)", op.N))
		case "flush", "cflush":
			script = append(script, "CFlush")
		}
	}
	declared := "None"
	actual := 0
	if c.ReqFraming == "cl" {
		declared = fmt.Sprintf("(Some %d)", c.ReqLen)
		actual = c.ReqLen
	} else if c.ReqFraming == "chunked" {
		actual = c.ReqLen
	} else {
		declared = "(Some 0)"
	}
	ae := c.AE
	if ae == "\x00" {
		ae = ""
	}
	stats["status_"+strconv.Itoa(through.resp.Status)]++
	if through.ce == 1 {
		stats["compressed"]++
	}
	if !same {
		stats["differs_from_direct"]++
	}
	if !through.called {
		stats["handler_not_called"]++
	}
	if c.AbortOnErr {
		stats["abort_on_write_error"]++
	}
	return fmt.Sprintf("mkWrCase %s %s %s %d %s %s %s %s", List(chain), Bytes(ae), declared, actual, B(c.Method == "HEAD"), B(c.AbortOnErr), List(script), IList(obs)), stats
}

func b2i(b bool) int {
	if b {
		return 1
	}
	return 0
}

var wrAE = []string{"\x00", "gzip", "gzip, deflate", "deflate, gzip;q=0.5", "GZIP", " gzip ", "br", "x-gzip", "gzipp", "deflate,gzip", "identity", "gzip;q=0", "*"}

func genWrCase(g *Rng) WrCase {
	c := WrCase{Method: "GET", AE: wrAE[g.Intn(len(wrAE))]}
	if g.Chance(45) {
		c.AE = "gzip"
	}
	// chain
	limit := g.Range(1, 48)
	sl := WrPlug{Name: "size_limit", MaxReq: g.Range(1, 32), MaxResp: limit}
	gz := WrPlug{Name: "gzip", GzMin: []int{0, 1, 8, 16, 24, 40}[g.Intn(6)], GzLevel: g.Range(-1, 9), GzTypes: []int{g.Intn(5)}, GzInt: g.Chance(30)}
	if g.Chance(40) {
		gz.GzTypes = append(gz.GzTypes, g.Intn(5))
	}
	switch g.Intn(10) {
	case 0, 1, 2:
		c.Chain = []WrPlug{sl}
	case 3, 4, 5:
		c.Chain = []WrPlug{gz}
	case 6:
		c.Chain = []WrPlug{{Name: "logging"}, sl}
	case 7:
		c.Chain = []WrPlug{sl, {Name: "logging"}}
	case 8:
		c.Chain = []WrPlug{{Name: "logging"}, gz}
	default:
		if g.Bool() {
			// size_limit outside gzip sees COMPRESSED bytes, whose number the model does not predict:
			// keep its response limit above any compressed size that can occur here
			sl.MaxResp = 400
			c.Chain = []WrPlug{sl, gz}
		} else {
			c.Chain = []WrPlug{gz, sl}
		}
	}
	// request body
	switch g.Intn(6) {
	case 0, 1, 2:
		c.ReqFraming = ""
	case 3, 4:
		c.Method, c.ReqFraming = "POST", "cl"
	default:
		c.Method, c.ReqFraming = "POST", "chunked"
	}
	if c.ReqFraming != "" {
		c.ReqLen = []int{0, 1, sl.MaxReq - 1, sl.MaxReq, sl.MaxReq + 1, sl.MaxReq + 9, g.Range(0, 40)}[g.Intn(7)]
		if c.ReqLen < 0 {
			c.ReqLen = 0
		}
	}
	if g.Chance(5) && c.ReqFraming == "" {
		c.Method = "HEAD"
	}
	// script: mostly well-formed (headers, interim, final header, writes/flushes), sometimes disordered
	if g.Chance(70) {
		c.Script = append(c.Script, WrOp{K: "set", Key: 1, Val: g.Intn(len(wrCT))})
	}
	for i := g.Intn(3); i > 0; i-- {
		c.Script = append(c.Script, WrOp{K: "set", Key: 10 + g.Intn(3), Val: g.Range(1, 99)})
	}
	if g.Chance(8) {
		c.Script = append(c.Script, WrOp{K: "set", Key: 3, Val: g.Range(1, 4)})
	}
	if g.Chance(10) {
		c.Script = append(c.Script, WrOp{K: "head", Code: []int{103, 103, 102, 100}[g.Intn(4)]})
	}
	if g.Chance(15) { // request headers that invite a shortcut
		c.ReqHdrs = [][][2]string{
			{{"Upgrade", "websocket"}, {"Connection", "keep-alive, Upgrade"}},
			{{"Upgrade", "h2c"}, {"Connection", "Upgrade"}},
			{{"Range", "bytes=0-9"}},
			{{"If-None-Match", "\"v1\""}},
			{{"Cache-Control", "no-transform"}},
			{{"Te", "trailers"}},
			{{"X-Requested-With", "XMLHttpRequest"}, {"Accept", "text/event-stream"}},
		}[g.Intn(7)]
	}
	if g.Chance(8) { // a Flush before anything else: the header block goes out with the implicit 200
		c.Script = append(c.Script, WrOp{K: []string{"flush", "cflush"}[g.Intn(2)]})
	}
	status := 200
	explicit := g.Chance(65)
	if explicit {
		status = []int{200, 200, 201, 204, 304, 301, 302, 404, 404, 500, 503, 202, 400, 413, 429, 416, 599, 600, 799, 999}[g.Intn(20)]
	}
	total := []int{0, 1, limit - 1, limit, limit + 1, limit + 7, gz.GzMin - 1, gz.GzMin, gz.GzMin + 1, g.Range(0, 60), 2 * limit}[g.Intn(11)]
	if total < 0 {
		total = 0
	}
	if status == 204 || status == 304 || (status >= 300 && status < 400 && g.Chance(60)) || g.Chance(10) {
		total = 0
	}
	declareCL := g.Chance(35)
	if declareCL {
		cl := total
		if (status == 204 || status == 304 || c.Method == "HEAD") && g.Chance(60) {
			cl = []int{limit + 1, 10 * limit, 100000, 10485761, 20000000}[g.Intn(5)] // entity length of a body-less response
		}
		c.Script = append(c.Script, WrOp{K: "set", Key: 2, Val: cl})
	}
	if g.Chance(5) { // an empty Write first (an empty preamble): it settles the implicit 200 like any other Write
		c.Script = append(c.Script, WrOp{K: "write", N: 0})
	}
	if explicit {
		c.Script = append(c.Script, WrOp{K: "head", Code: status})
	}
	// partition total into writes, with flushes in between
	rem := total
	for rem > 0 {
		n := rem
		if g.Chance(60) {
			n = g.Range(1, rem)
		}
		wk := "write"
		if n <= 32768 && g.Chance(10) {
			wk = "copy"
		}
		c.Script = append(c.Script, WrOp{K: wk, N: n})
		rem -= n
		if !declareCL && g.Chance(20) {
			c.Script = append(c.Script, WrOp{K: []string{"flush", "flush", "cflush"}[g.Intn(3)]})
		}
	}
	if g.Chance(8) {
		c.Script = append(c.Script, WrOp{K: "write", N: 0})
	}
	if !declareCL && g.Chance(10) {
		c.Script = append(c.Script, WrOp{K: "flush"})
	}
	if g.Chance(6) { // disordered scripts (not well-formed): late header, second WriteHeader
		c.Script = append(c.Script, WrOp{K: "head", Code: 500})
	}
	// the handler aborts on a failed Write, as the reverse proxy does; only where the refusal can only come from size_limit
	// (it is the innermost plugin, the status allows a body, a declared length is the real one)
	if c.Chain[len(c.Chain)-1].Name == "size_limit" && status != 204 && status != 304 && c.Method != "HEAD" && g.Chance(40) {
		ok := true
		for _, op := range c.Script {
			if op.K == "set" && op.Key == 2 && op.Val != total {
				ok = false
			}
		}
		c.AbortOnErr = ok
	}
	if g.Chance(25) { // an earlier exchange through the same chain: oversized, flushed, or ordinary
		switch g.Intn(4) {
		case 3: // aborted mid-body (compressible content): nothing of it may leak into the next exchange
			c.Pre = []WrOp{{K: "set", Key: 1, Val: 0}, {K: "head", Code: 500}, {K: "write", N: 300}, {K: "abort"}}
		case 0:
			c.Pre = []WrOp{{K: "write", N: 3 * limit}, {K: "write", N: 5}}
		case 1:
			c.Pre = []WrOp{{K: "set", Key: 1, Val: 0}, {K: "head", Code: 404}, {K: "write", N: 2}, {K: "flush"}, {K: "write", N: 400}}
		default:
			c.Pre = []WrOp{{K: "head", Code: 204}}
		}
	}
	return c
}

func wrCorpus() []WrCase {
	sl := func(req, resp int) WrPlug { return WrPlug{Name: "size_limit", MaxReq: req, MaxResp: resp} }
	gz := func(min int, intStyle bool) WrPlug {
		return WrPlug{Name: "gzip", GzMin: min, GzLevel: 5, GzTypes: []int{0}, GzInt: intStyle}
	}
	return []WrCase{
		{Chain: []WrPlug{sl(10, 100)}, AE: "\x00", Method: "GET", Script: []WrOp{{K: "head", Code: 204}}},
		{Chain: []WrPlug{sl(10, 100)}, AE: "\x00", Method: "GET", Script: []WrOp{{K: "head", Code: 404}, {K: "flush"}, {K: "write", N: 2}}},
		{Chain: []WrPlug{sl(10, 100)}, AE: "\x00", Method: "GET", Script: []WrOp{{K: "set", Key: 10, Val: 7}, {K: "head", Code: 103}, {K: "head", Code: 200}, {K: "write", N: 2}}},
		{Chain: []WrPlug{sl(10, 16)}, AE: "\x00", Method: "GET", Script: []WrOp{{K: "set", Key: 1, Val: 2}, {K: "write", N: 16}}},
		{Chain: []WrPlug{sl(10, 16)}, AE: "\x00", Method: "GET", Script: []WrOp{{K: "set", Key: 1, Val: 2}, {K: "write", N: 17}}},
		// what the proxy does: declared length above the limit, the copy fails, the handler is aborted: the 413 must still arrive
		{Chain: []WrPlug{sl(10, 16)}, AE: "\x00", Method: "GET", AbortOnErr: true, Script: []WrOp{{K: "set", Key: 1, Val: 2}, {K: "set", Key: 2, Val: 17}, {K: "head", Code: 200}, {K: "write", N: 17}}},
		{Chain: []WrPlug{{Name: "logging"}, sl(10, 16)}, AE: "\x00", Method: "GET", AbortOnErr: true, Script: []WrOp{{K: "write", N: 9}, {K: "flush"}, {K: "write", N: 9}}},
		{Chain: []WrPlug{sl(10, 16)}, AE: "\x00", Method: "GET", Script: []WrOp{{K: "head", Code: 201}, {K: "write", N: 9}, {K: "write", N: 7}, {K: "write", N: 1}}},
		{Chain: []WrPlug{sl(8, 16)}, AE: "\x00", Method: "POST", ReqLen: 8, ReqFraming: "cl", Script: []WrOp{{K: "write", N: 3}}},
		{Chain: []WrPlug{sl(8, 16)}, AE: "\x00", Method: "POST", ReqLen: 9, ReqFraming: "cl", Script: []WrOp{{K: "write", N: 3}}},
		{Chain: []WrPlug{sl(8, 4096)}, AE: "\x00", Method: "POST", ReqLen: 9, ReqFraming: "chunked", Script: []WrOp{{K: "write", N: 3}}},
		{Chain: []WrPlug{gz(16, false)}, AE: "gzip", Method: "GET", Script: []WrOp{{K: "set", Key: 1, Val: 0}, {K: "write", N: 40}}},
		{Chain: []WrPlug{gz(16, true)}, AE: "gzip", Method: "GET", Script: []WrOp{{K: "set", Key: 1, Val: 0}, {K: "set", Key: 2, Val: 40}, {K: "head", Code: 201}, {K: "write", N: 40}}},
		{Chain: []WrPlug{gz(16, false)}, AE: "gzip", Method: "GET", Script: []WrOp{{K: "set", Key: 1, Val: 0}, {K: "set", Key: 3, Val: 2}, {K: "write", N: 40}}},
		{Chain: []WrPlug{gz(16, false)}, AE: "gzip", Method: "GET", Script: []WrOp{{K: "set", Key: 1, Val: 0}, {K: "write", N: 20}, {K: "flush"}, {K: "write", N: 20}}},
		{Chain: []WrPlug{gz(16, false)}, AE: "deflate, gzip;q=0.5", Method: "GET", Script: []WrOp{{K: "set", Key: 1, Val: 0}, {K: "write", N: 40}}},
		{Chain: []WrPlug{gz(0, false)}, AE: "gzip", Method: "GET", Script: []WrOp{{K: "set", Key: 1, Val: 0}, {K: "head", Code: 204}}},
		{Chain: []WrPlug{gz(16, false)}, AE: "gzip", Method: "GET", Script: []WrOp{{K: "set", Key: 1, Val: 0}, {K: "write", N: 15}}},
		{Chain: []WrPlug{gz(16, false)}, AE: "gzip", Method: "GET", Script: []WrOp{{K: "set", Key: 1, Val: 0}, {K: "write", N: 16}}},
		{Chain: []WrPlug{gz(16, false)}, AE: "gzip", Method: "GET", Script: []WrOp{{K: "set", Key: 1, Val: 3}, {K: "write", N: 40}}},
		// an empty first Write settles the implicit 200; codings other than the usual three are encodings too; statuses above 599
		{Chain: []WrPlug{gz(16, false)}, AE: "gzip", Method: "GET", Script: []WrOp{{K: "set", Key: 1, Val: 0}, {K: "write", N: 0}, {K: "head", Code: 404}, {K: "write", N: 40}}},
		{Chain: []WrPlug{sl(10, 100)}, AE: "\x00", Method: "GET", Script: []WrOp{{K: "write", N: 0}, {K: "head", Code: 500}, {K: "write", N: 4}}},
		{Chain: []WrPlug{gz(16, false)}, AE: "gzip", Method: "GET", Script: []WrOp{{K: "set", Key: 1, Val: 0}, {K: "set", Key: 3, Val: 3}, {K: "set", Key: 2, Val: 40}, {K: "write", N: 40}}},
		{Chain: []WrPlug{gz(16, false)}, AE: "gzip", Method: "GET", Script: []WrOp{{K: "set", Key: 1, Val: 0}, {K: "set", Key: 3, Val: 4}, {K: "write", N: 40}}},
		{Chain: []WrPlug{sl(10, 100)}, AE: "\x00", Method: "GET", Script: []WrOp{{K: "head", Code: 999}, {K: "write", N: 4}}},
		{Chain: []WrPlug{sl(10, 100)}, AE: "\x00", Method: "GET", Script: []WrOp{{K: "head", Code: 600}}},
		// a client that has half-closed: the context of the request has ended, the connection is still good for the answer
		{Chain: []WrPlug{sl(10, 100)}, AE: "\x00", Method: "GET", HalfClose: true, Script: []WrOp{{K: "set", Key: 1, Val: 2}, {K: "head", Code: 201}, {K: "write", N: 30}, {K: "write", N: 30}}},
		{Chain: []WrPlug{{Name: "logging"}, sl(10, 100)}, AE: "\x00", Method: "GET", HalfClose: true, Script: []WrOp{{K: "write", N: 9}}},
		// a body handed over with io.Copy (the writer's ReadFrom, if it had one) at and above the limit; 100 and 102 as interim
		// responses; the default compression level with a body above one megabyte
		{Chain: []WrPlug{sl(10, 100)}, AE: "\x00", Method: "GET", Script: []WrOp{{K: "set", Key: 1, Val: 2}, {K: "copy", N: 100}}},
		{Chain: []WrPlug{sl(10, 100)}, AE: "\x00", Method: "GET", Script: []WrOp{{K: "set", Key: 1, Val: 2}, {K: "copy", N: 101}}},
		{Chain: []WrPlug{sl(10, 100)}, AE: "\x00", Method: "GET", AbortOnErr: true, Script: []WrOp{{K: "head", Code: 200}, {K: "copy", N: 60}, {K: "copy", N: 60}}},
		{Chain: []WrPlug{gz(16, false)}, AE: "gzip", Method: "GET", Script: []WrOp{{K: "set", Key: 1, Val: 0}, {K: "head", Code: 100}, {K: "head", Code: 201}, {K: "write", N: 40}}},
		{Chain: []WrPlug{gz(16, false)}, AE: "gzip", Method: "GET", Script: []WrOp{{K: "set", Key: 1, Val: 0}, {K: "head", Code: 102}, {K: "head", Code: 404}, {K: "write", N: 40}}},
		{Chain: []WrPlug{sl(10, 100)}, AE: "\x00", Method: "GET", Script: []WrOp{{K: "head", Code: 100}, {K: "head", Code: 404}, {K: "write", N: 4}}},
		{Chain: []WrPlug{{Name: "gzip", GzMin: 16, GzLevel: -1, GzTypes: []int{0}}}, AE: "gzip", Method: "GET", Script: []WrOp{{K: "set", Key: 1, Val: 0}, {K: "write", N: 1100000}}},
		{Chain: []WrPlug{{Name: "gzip", GzMin: 16, GzLevel: -1, GzTypes: []int{0}, GzInt: true}}, AE: "gzip", Method: "GET", Script: []WrOp{{K: "set", Key: 1, Val: 0}, {K: "head", Code: 201}, {K: "write", N: 600000}, {K: "write", N: 600000}}},
		// a Flush before anything else, then a body that would qualify for compression
		{Chain: []WrPlug{gz(16, false)}, AE: "gzip", Method: "GET", Script: []WrOp{{K: "set", Key: 1, Val: 0}, {K: "flush"}, {K: "write", N: 40}}},
		{Chain: []WrPlug{gz(16, false)}, AE: "gzip", Method: "GET", Script: []WrOp{{K: "flush"}, {K: "set", Key: 1, Val: 0}, {K: "head", Code: 201}, {K: "write", N: 40}}},
		// declared lengths above the 10 MiB buffering cap with a status other than 200: a partial answer with its whole body,
		// a not-modified answer repeating the entity length
		{Chain: []WrPlug{gz(16, false)}, AE: "gzip", Method: "GET", Script: []WrOp{{K: "set", Key: 1, Val: 0}, {K: "set", Key: 2, Val: 10489856}, {K: "head", Code: 206}, {K: "write", N: 10489856}}},
		{Chain: []WrPlug{gz(16, false)}, AE: "gzip", Method: "GET", Script: []WrOp{{K: "set", Key: 1, Val: 0}, {K: "set", Key: 2, Val: 20000000}, {K: "head", Code: 304}}},
		{Chain: []WrPlug{gz(16, false)}, AE: "gzip", Method: "GET", Script: []WrOp{{K: "set", Key: 1, Val: 0}, {K: "set", Key: 2, Val: 10485760}, {K: "head", Code: 404}, {K: "write", N: 10485760}}},
		// a recorded status other than 200 and a controller flush before the first byte (a backend that announces trailers)
		{Chain: []WrPlug{sl(10, 100)}, AE: "\x00", Method: "GET", Script: []WrOp{{K: "set", Key: 1, Val: 2}, {K: "head", Code: 201}, {K: "cflush"}, {K: "write", N: 5}}},
		{Chain: []WrPlug{{Name: "logging"}, sl(10, 100)}, AE: "\x00", Method: "GET", Script: []WrOp{{K: "head", Code: 404}, {K: "cflush"}, {K: "write", N: 5}, {K: "cflush"}}},
		// the backend's own 413 with a declared length: within the limits nothing of it changes (body beyond net/http's buffer, HEAD)
		{Chain: []WrPlug{sl(10, 4000)}, AE: "\x00", Method: "GET", Script: []WrOp{{K: "set", Key: 1, Val: 2}, {K: "set", Key: 2, Val: 3000}, {K: "head", Code: 413}, {K: "write", N: 3000}}},
		{Chain: []WrPlug{sl(10, 4000)}, AE: "\x00", Method: "HEAD", Script: []WrOp{{K: "set", Key: 2, Val: 3000}, {K: "head", Code: 413}}},
		{Chain: []WrPlug{sl(10, 4000)}, AE: "\x00", Method: "GET", Script: []WrOp{{K: "set", Key: 2, Val: 3000}, {K: "head", Code: 429}, {K: "write", N: 1000}, {K: "flush"}, {K: "write", N: 2000}}},
		// an Upgrade request answered by a plain handler: the response limit still applies
		{Chain: []WrPlug{sl(10, 100)}, AE: "\x00", Method: "GET", ReqHdrs: [][2]string{{"Upgrade", "websocket"}, {"Connection", "Upgrade"}}, Script: []WrOp{{K: "write", N: 1000}}},
		{Chain: []WrPlug{sl(10, 100)}, AE: "\x00", Method: "GET", ReqHdrs: [][2]string{{"Upgrade", "websocket"}, {"Connection", "Upgrade"}}, Script: []WrOp{{K: "set", Key: 2, Val: 1000}, {K: "head", Code: 200}, {K: "write", N: 1000}}},
	}
}

func TestWriter(t *testing.T) {
	cw := NewCaseWriter("writer")
	idx := 0
	emit := func(kind string, c WrCase) {
		if Mine(idx) {
			if pre, err := json.Marshal(c); err == nil {
				cw.Begin(idx, kind, pre)
			}
			coq, stats := runWrCase(c)
			repl, _ := json.Marshal(c)
			cw.Put(Case{Idx: idx, Kind: kind, Coq: coq, Repl: repl, Stats: stats})
		}
		idx++
	}
	if rp := ReplayCases(); rp != nil {
		for _, raw := range rp {
			var c WrCase
			if err := json.Unmarshal(raw, &c); err != nil {
				panic(err)
			}
			emit("replay", c)
		}
	} else {
		for _, c := range wrCorpus() {
			emit("corpus", c)
		}
		n := 1200
		if Tier() == "thorough" {
			n = 24000
		}
		root := NewRng(Seed() + 909)
		for i := 0; i < n; i++ {
			emit("random", genWrCase(root.Fork(uint64(i))))
		}
	}
	cw.Close()
}
