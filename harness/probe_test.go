package verifharness

import (
	"encoding/json"
	"fmt"
	"io"
	"net/http"
	"net/http/httptest"
	"sort"
	"strings"
	"sync"
	"syscall"
	"testing"
	"testing/synctest"
	"time"

	"github.com/0xReLogic/Helios/internal/config"
	lbp "github.com/0xReLogic/Helios/internal/loadbalancer"
)

// ---- probe suite (C19, active part of C04): active health checks and Stop under virtual time ----

type PrOp struct {
	K string `json:"k"`           // set adv req stop stop2
	B int    `json:"b,omitempty"` // backend 1..n
	S int    `json:"s,omitempty"` // script: 0 ok, 1 status 500, 2 transport error, 3 no answer
	D int64  `json:"d,omitempty"` // ns
}
type PrCase struct {
	N        int    `json:"n"`
	Interval int    `json:"interval"` // s
	Timeout  int    `json:"timeout"`  // s
	Window   int    `json:"window"`   // s
	Init     []int  `json:"init"`     // script of each backend at start-up
	Ops      []PrOp `json:"ops"`
	Pool     bool   `json:"pool,omitempty"`  // websocket pool enabled (Stop also shuts the pool down)
	Stop0    bool   `json:"stop0,omitempty"` // Stop is called right after NewLoadBalancer returned, before the checker goroutine has run
}

type probeTable struct {
	mu      sync.Mutex
	scripts map[string]*int // host -> current script
	log     []probeRec
}
type probeRec struct {
	host string
	at   int64
	end  int64 // when the probe returned (0 while in flight)
}

var prTable = &probeTable{scripts: map[string]*int{}}

type probeRT struct{}

func (probeRT) RoundTrip(r *http.Request) (*http.Response, error) {
	prTable.mu.Lock()
	sp := prTable.scripts[r.URL.Host]
	s := 0
	if sp != nil {
		s = *sp
	}
	idx := len(prTable.log)
	prTable.log = append(prTable.log, probeRec{host: r.URL.Host, at: time.Now().UnixNano()})
	prTable.mu.Unlock()
	finish := func() {
		prTable.mu.Lock()
		prTable.log[idx].end = time.Now().UnixNano()
		prTable.mu.Unlock()
	}
	defer finish()
	switch s {
	case 1:
		return &http.Response{StatusCode: 500, Status: "500", Proto: "HTTP/1.1", ProtoMajor: 1, ProtoMinor: 1, Header: http.Header{}, Body: io.NopCloser(strings.NewReader("")), Request: r}, nil
	case 2:
		return nil, fmt.Errorf("dial tcp: connection refused")
	case 3:
		<-r.Context().Done()
		return nil, r.Context().Err()
	}
	return &http.Response{StatusCode: 200, Status: "200 OK", Proto: "HTTP/1.1", ProtoMajor: 1, ProtoMinor: 1, Header: http.Header{}, Body: io.NopCloser(strings.NewReader("ok")), Request: r}, nil
}

// instant200: transport of the proxied requests, records which backend served
type instant200 struct {
	id  int
	hit *[]int
}

func (t instant200) RoundTrip(r *http.Request) (*http.Response, error) {
	*t.hit = append(*t.hit, t.id)
	return &http.Response{StatusCode: 200, Status: "200 OK", Proto: "HTTP/1.1", ProtoMajor: 1, ProtoMinor: 1, Header: http.Header{}, Body: io.NopCloser(strings.NewReader("ok")), ContentLength: 2, Request: r}, nil
}

var prCaseSeq int

func runPrCase(c PrCase) (string, map[string]int) {
	stats := map[string]int{}
	prCaseSeq++
	tag := prCaseSeq
	host := func(i int) string { return fmt.Sprintf("c%db%d.probe", tag, i) }
	scripts := make([]int, c.N+1)
	prTable.mu.Lock()
	for i := 1; i <= c.N; i++ {
		scripts[i] = c.Init[(i-1)%len(c.Init)]
		prTable.scripts[host(i)] = &scripts[i]
	}
	logStart := len(prTable.log)
	prTable.mu.Unlock()
	cfg := &config.Config{Server: config.ServerConfig{Port: 8080}, LoadBalancer: config.LoadBalancerConfig{Strategy: "round_robin"}}
	for i := 1; i <= c.N; i++ {
		cfg.Backends = append(cfg.Backends, config.BackendConfig{Name: fmt.Sprintf("n%d", i), Address: "http://" + host(i)})
	}
	cfg.HealthChecks.Active = config.ActiveHealthCheckConfig{Enabled: true, Interval: c.Interval, Timeout: c.Timeout, Path: "/hc"}
	cfg.HealthChecks.Passive = config.PassiveHealthCheckConfig{Enabled: false, UnhealthyThreshold: 1, UnhealthyTimeout: c.Window}
	if c.Pool {
		cfg.LoadBalancer.WebSocketPool = config.WebSocketPoolConfig{Enabled: true, MaxIdle: 2, MaxActive: 10, IdleTimeoutSeconds: 30}
	}
	t0 := time.Now().UnixNano()
	lb, err := lbp.NewLoadBalancer(cfg)
	if err != nil {
		panic(err)
	}
	if c.Stop0 {
		// Stop on the constructing goroutine, before the checker goroutine has had a chance to run: the initial check then
		// meets a balancer that is already shutting down.  Every backend is scripted healthy, so nothing else is observable.
		lb.Stop()
		lb.Stop()
		synctest.Wait()
		time.Sleep(time.Duration(3*c.Interval)*time.Second + 1)
		synctest.Wait()
		late := 0
		prTable.mu.Lock()
		for _, rec := range prTable.log[logStart:] {
			var cc, bb int
			fmt.Sscanf(rec.host, "c%db%d.probe", &cc, &bb)
			if rec.at > t0 && cc == tag {
				late++
			}
		}
		prTable.mu.Unlock()
		var ops0, obs0 []string
		for i := 1; i <= c.N; i++ {
			ops0 = append(ops0, fmt.Sprintf("PSet %d 0", i))
			obs0 = append(obs0, "[]")
		}
		ops0 = append(ops0, "PStop", "PStop")
		obs0 = append(obs0, "[]", "[]")
		stats["stop0"]++
		return fmt.Sprintf("mkPrCase %d %s %s %s %s %d", c.N, Z(int64(c.Window)*int64(time.Second)), Z(int64(c.Timeout)*int64(time.Second)), List(ops0), List(obs0), late), stats
	}
	var hits []int
	for i, b := range lb.VerifBackends() {
		b.ReverseProxy.Transport = instant200{id: i + 1, hit: &hits}
	}
	synctest.Wait()
	now := t0
	sec := int64(time.Second)
	tick := int64(c.Interval) * sec
	var ops, obs []string
	stopReturnedAt := int64(-1)
	probedAt := func(at int64) []int { // backends probed at exactly this instant
		prTable.mu.Lock()
		defer prTable.mu.Unlock()
		var ids []int
		for _, rec := range prTable.log[logStart:] {
			var cc, bb int
			fmt.Sscanf(rec.host, "c%db%d.probe", &cc, &bb)
			if rec.at == at && cc == tag {
				ids = append(ids, bb)
			}
		}
		sort.Ints(ids)
		return ids
	}
	emitTick := func(at int64) {
		ops = append(ops, "PTick")
		obs = append(obs, IList(probedAt(at)))
		stats["tick"]++
	}
	emitTick(t0) // the initial check at start-up
	for i := 1; i <= c.N; i++ {
		ops = append([]string{fmt.Sprintf("PSet %d %d", i, scripts[i])}, ops...)
		obs = append([]string{"[]"}, obs...)
	}
	advance := func(d int64) {
		time.Sleep(time.Duration(d))
		synctest.Wait()
		end := now + d
		for {
			next := t0 + ((now-t0)/tick+1)*tick
			if next > end {
				break
			}
			ops = append(ops, "PAdvance "+Z(next-now))
			obs = append(obs, "[]")
			now = next
			emitTick(next)
		}
		if end > now {
			ops = append(ops, "PAdvance "+Z(end-now))
			obs = append(obs, "[]")
		}
		now = end
	}
	stopAndCheck := func(concurrent bool) {
		prTable.mu.Lock()
		var inflight []int
		for _, rec := range prTable.log[logStart:] {
			var cc, bb int
			fmt.Sscanf(rec.host, "c%db%d.probe", &cc, &bb)
			if rec.end == 0 && cc == tag {
				inflight = append(inflight, bb)
			}
		}
		prTable.mu.Unlock()
		sort.Ints(inflight)
		n := 1
		if concurrent {
			n = 3
		}
		done := make(chan struct{}, n)
		for i := 0; i < n; i++ {
			go func() { lb.Stop(); done <- struct{}{} }()
		}
		synctest.Wait()
		returned := 0
		for i := 0; i < n; i++ {
			select {
			case <-done:
				returned++
			default:
			}
		}
		ops = append(ops, "PStop")
		if returned == n {
			obs = append(obs, IList(inflight))
			if stopReturnedAt < 0 {
				stopReturnedAt = now
			}
		} else {
			obs = append(obs, "[-1]") // Stop did not return although nothing but cancelled probes was in its way
			stats["stop_blocked"]++
		}
		stats["stop"]++
	}
	for _, op := range c.Ops {
		switch op.K {
		case "set":
			prTable.mu.Lock()
			scripts[op.B] = op.S
			prTable.mu.Unlock()
			ops = append(ops, fmt.Sprintf("PSet %d %d", op.B, op.S))
			obs = append(obs, "[]")
		case "adv":
			advance(op.D)
			stats["advance"]++
		case "req":
			hits = hits[:0]
			for i := 0; i < c.N; i++ {
				rec := httptest.NewRecorder()
				req := httptest.NewRequest("GET", "http://lb.local/x", nil)
				lb.ServeHTTP(rec, req)
			}
			seen := map[int]bool{}
			var ids []int
			for _, h := range hits {
				if !seen[h] {
					seen[h] = true
					ids = append(ids, h)
				}
			}
			sort.Ints(ids)
			ops = append(ops, "PRequest")
			obs = append(obs, IList(ids))
			stats["request"]++
		case "stop":
			stopAndCheck(false)
		case "stop3":
			stopAndCheck(true)
		}
	}
	// no probe is sent after Stop returned: let three more intervals pass
	if stopReturnedAt >= 0 {
		advance(3*tick + 1)
	}
	late := 0
	prTable.mu.Lock()
	for _, rec := range prTable.log[logStart:] {
		var cc, bb int
		fmt.Sscanf(rec.host, "c%db%d.probe", &cc, &bb)
		if stopReturnedAt >= 0 && rec.at > stopReturnedAt && cc == tag {
			late++
		}
	}
	prTable.mu.Unlock()
	return fmt.Sprintf("mkPrCase %d %s %s %s %s %d", c.N, Z(int64(c.Window)*sec), Z(int64(c.Timeout)*sec), List(ops), List(obs), late), stats
}

func genPrCase(g *Rng) PrCase {
	c := PrCase{N: g.Range(1, 4), Interval: []int{5, 10, 30}[g.Intn(3)], Window: []int{0, 1, 7, 30, 60}[g.Intn(5)]}
	c.Timeout = []int{1, 2, c.Interval - 1}[g.Intn(3)]
	if c.Timeout < 1 {
		c.Timeout = 1
	}
	for i := 0; i < c.N; i++ {
		c.Init = append(c.Init, []int{0, 0, 0, 1, 2, 3}[g.Intn(6)])
	}
	sec := int64(time.Second)
	I, T, W := int64(c.Interval)*sec, int64(c.Timeout)*sec, int64(c.Window)*sec
	gaps := []int64{0, 1, I - 1, I, I + 1, T - 1, T, T + 1, W - 1, W, W + 1, I / 2, 2*I + 3, W + I}
	n := g.Range(4, 24)
	stopped := false
	for i := 0; i < n; i++ {
		switch x := g.Intn(100); {
		case x < 25:
			c.Ops = append(c.Ops, PrOp{K: "set", B: g.Range(1, c.N), S: []int{0, 0, 1, 2, 3}[g.Intn(5)]})
		case x < 55:
			d := g.PickI64(gaps)
			if d < 0 {
				d = 0
			}
			c.Ops = append(c.Ops, PrOp{K: "adv", D: d})
		case x < 85:
			c.Ops = append(c.Ops, PrOp{K: "req"})
		case x < 93 || stopped:
			if g.Chance(50) || stopped {
				c.Ops = append(c.Ops, PrOp{K: "stop"})
			} else {
				c.Ops = append(c.Ops, PrOp{K: "stop3"})
			}
			stopped = true
		default:
			c.Ops = append(c.Ops, PrOp{K: "req"})
		}
	}
	if !stopped && g.Chance(70) {
		c.Ops = append(c.Ops, PrOp{K: "stop"})
	}
	c.Pool = g.Chance(35)
	if g.Chance(8) {
		c.Stop0 = true
		c.Ops = nil
		for i := range c.Init {
			c.Init[i] = 0
		}
	}
	return c
}

func TestProbe(t *testing.T) {
	http.DefaultTransport = probeRT{}
	synctest.Test(t, func(t *testing.T) {
		cw := NewCaseWriter("probe")
		idx := 0
		emit := func(kind string, c PrCase) {
			if Mine(idx) {
				if pre, err := json.Marshal(c); err == nil {
					cw.Begin(idx, kind, pre)
				}
				coq, stats := runPrCase(c)
				repl, _ := json.Marshal(c)
				cw.Put(Case{Idx: idx, Kind: kind, Coq: coq, Repl: repl, Stats: stats})
			}
			idx++
		}
		if rp := ReplayCases(); rp != nil {
			for _, raw := range rp {
				var c PrCase
				if err := json.Unmarshal(raw, &c); err != nil {
					panic(err)
				}
				emit("replay", c)
			}
		} else {
			sec := int64(time.Second)
			corpus := []PrCase{
				// stop before the first tick, while a probe gets no answer
				{N: 2, Interval: 10, Timeout: 5, Window: 30, Init: []int{3, 0}, Ops: []PrOp{{K: "req"}, {K: "stop"}, {K: "req"}}},
				// stop between ticks, twice
				{N: 2, Interval: 10, Timeout: 2, Window: 30, Init: []int{0, 1}, Ops: []PrOp{{K: "adv", D: 12 * sec}, {K: "req"}, {K: "stop"}, {K: "stop"}, {K: "adv", D: 40 * sec}, {K: "req"}}},
				// unanswered probe: ejected when the client timeout fires, back after the window
				{N: 1, Interval: 10, Timeout: 3, Window: 7, Init: []int{3}, Ops: []PrOp{{K: "req"}, {K: "adv", D: 3 * sec}, {K: "req"}, {K: "set", B: 1, S: 0}, {K: "adv", D: 7 * sec}, {K: "req"}, {K: "adv", D: 1}, {K: "req"}, {K: "stop3"}}},
				// failing probe ejects, successful probe never does, an ejected backend is not probed
				{N: 3, Interval: 5, Timeout: 1, Window: 60, Init: []int{0, 2, 1}, Ops: []PrOp{{K: "req"}, {K: "set", B: 2, S: 0}, {K: "adv", D: 5 * sec}, {K: "req"}, {K: "adv", D: 56 * sec}, {K: "req"}, {K: "stop"}}},
			}
			for _, c := range corpus {
				emit("corpus", c)
			}
			n := 600
			if Tier() == "thorough" {
				n = 12000
			}
			root := NewRng(Seed() + 1919)
			for i := 0; i < n; i++ {
				emit("random", genPrCase(root.Fork(uint64(i))))
			}
		}
		cw.Close()
		syscall.Exit(0)
	})
}
