package verifharness

import (
	"bytes"
	"encoding/json"
	"fmt"
	"io"
	"net"
	"net/http"
	"net/http/httptest"
	"os"
	"os/exec"
	"path/filepath"
	"sort"
	"strings"
	"sync"
	"sync/atomic"
	"syscall"
	"testing"
	"time"

	"github.com/0xReLogic/Helios/internal/config"
	"gopkg.in/yaml.v3"
)

// ---- wire suite: the REAL cmd/helios binary (built from the current tree) in front of scripted backends,
// observed by a raw TCP client; every exchange is also made directly to the backend (differential) ----

type WiPlug struct {
	Name    string      `json:"name"` // logging headers custom-auth size_limit gzip
	Key     string      `json:"key,omitempty"`
	Set     [][2]string `json:"set,omitempty"`
	ReqSet  [][2]string `json:"reqset,omitempty"`
	MaxReq  int         `json:"maxreq,omitempty"`
	MaxResp int         `json:"maxresp,omitempty"`
}
type WiCfg struct {
	ReqID    bool     `json:"reqid"`
	ReqHdr   string   `json:"reqhdr"` // "" = default
	Trace    bool     `json:"trace"`
	TraceHdr string   `json:"tracehdr"`
	Chain    []WiPlug `json:"chain"`
	Limit    bool     `json:"limit"`   // rate limiter with max_tokens 1 (second request of a client is refused)
	Passive  bool     `json:"passive"` // passive health checks, threshold 1 (a 5xx ejects the backend)
	Base     string   `json:"base"`    // path prefix of the backend address
	Strategy string   `json:"strategy"`
	NBack    int      `json:"nback"`
	Handler  int      `json:"handler"`           // server.timeouts.handler (documented setting)
	Breaker  bool     `json:"breaker,omitempty"` // circuit breaker enabled with thresholds far out of reach: it stays closed and must not show
}
type WiReq struct {
	Method  string      `json:"method"`
	Path    string      `json:"path"`
	Query   string      `json:"query"`
	Headers [][2]string `json:"headers"`
	BodyLen int         `json:"bodylen"`
	Framing string      `json:"framing"` // "" cl chunked
}
type WiScript struct {
	Interim   [][][2]string `json:"interim,omitempty"` // one entry per 103 response: its headers
	Status    int           `json:"status"`
	Headers   [][2]string   `json:"headers"`
	Segs      []int         `json:"segs"`
	Flush     bool          `json:"flush"`               // flush after every segment and wait until the client has it
	CL        bool          `json:"cl"`                  // declare Content-Length
	HeadFlush bool          `json:"headflush,omitempty"` // flush the header block alone first and wait until the client has it
	Cut       bool          `json:"cut,omitempty"`       // the backend dies after the last (flushed) segment: no terminating chunk
	Delay     int           `json:"delay,omitempty"`     // the backend thinks for so many milliseconds before it answers
	Early     bool          `json:"early,omitempty"`     // the backend answers from the request head alone, without reading the body (declared-length uploads)
}
type WiCase struct {
	Cfg    WiCfg    `json:"cfg"`
	Phase  string   `json:"phase"` // normal | limited | ejected
	Req    WiReq    `json:"req"`
	Script WiScript `json:"script"`
}

type wiBackView struct {
	called                    bool
	method, path, query, host string
	hdr                       http.Header
	bodyOK                    bool
	bodyLen                   int
	framing                   int
}

// wiBackend: scripted backend shared by all backends of a group; plays the current script
type wiBackend struct {
	mu       sync.Mutex
	script   WiScript
	view     wiBackView
	progress *atomic.Int64
	streamed bool
}

func (b *wiBackend) set(s WiScript, progress *atomic.Int64) {
	b.mu.Lock()
	b.script, b.view, b.progress, b.streamed = s, wiBackView{}, progress, true
	b.mu.Unlock()
}

func (b *wiBackend) ServeHTTP(w http.ResponseWriter, r *http.Request) {
	if r.URL.Path == "/__health" {
		w.WriteHeader(200)
		return
	}
	b.mu.Lock()
	early := b.script.Early
	b.mu.Unlock()
	var body []byte
	if early {
		// the body is not looked at: what the view says about it is what was declared
		body = detBytes(7, int(r.ContentLength))
	} else {
		body, _ = io.ReadAll(r.Body)
	}
	b.mu.Lock()
	if d := b.script.Delay; d > 0 {
		b.mu.Unlock()
		time.Sleep(time.Duration(d) * time.Millisecond)
		b.mu.Lock()
	}
	s := b.script
	progress := b.progress
	v := wiBackView{called: true, method: r.Method, host: r.Host, hdr: r.Header.Clone(), bodyLen: len(body), bodyOK: bytes.Equal(body, detBytes(7, len(body)))}
	uri := r.RequestURI
	if i := strings.IndexByte(uri, '?'); i >= 0 {
		v.path, v.query = uri[:i], uri[i+1:]
	} else {
		v.path = uri
	}
	switch {
	case len(r.TransferEncoding) > 0 && r.TransferEncoding[0] == "chunked":
		v.framing = 2
	case r.ContentLength > 0:
		v.framing = 1
	}
	b.view = v
	b.mu.Unlock()
	for _, ih := range s.Interim {
		for _, kv := range ih {
			w.Header().Add(kv[0], kv[1])
		}
		w.WriteHeader(103)
		for _, kv := range ih {
			w.Header().Del(kv[0])
		}
	}
	for _, kv := range s.Headers {
		w.Header().Add(kv[0], kv[1])
	}
	total := 0
	for _, n := range s.Segs {
		total += n
	}
	if s.CL {
		w.Header().Set("Content-Length", fmt.Sprint(total))
	}
	w.WriteHeader(s.Status)
	if s.HeadFlush {
		w.(http.Flusher).Flush()
		if progress != nil {
			deadline := time.Now().Add(800 * time.Millisecond)
			for progress.Load() < 0 && time.Now().Before(deadline) {
				time.Sleep(200 * time.Microsecond)
			}
			if progress.Load() < 0 {
				b.mu.Lock()
				b.streamed = false
				b.mu.Unlock()
			}
		}
	}
	off := 0
	defer func() {
		if s.Cut {
			panic(http.ErrAbortHandler) // the server drops the connection without finishing the response
		}
	}()
	for _, n := range s.Segs {
		w.Write(detBytes(off, n))
		off += n
		if s.Flush {
			w.(http.Flusher).Flush()
			if progress != nil && r.Method != "HEAD" {
				deadline := time.Now().Add(800 * time.Millisecond)
				for progress.Load() < int64(off) && time.Now().Before(deadline) {
					time.Sleep(200 * time.Microsecond)
				}
				if progress.Load() < int64(off) {
					b.mu.Lock()
					b.streamed = false
					b.mu.Unlock()
				}
			}
		}
	}
}

func freePort() int {
	l, err := net.Listen("tcp", "127.0.0.1:0")
	if err != nil {
		panic(err)
	}
	defer l.Close()
	return l.Addr().(*net.TCPAddr).Port
}

type heliosProc struct {
	cmd    *exec.Cmd
	port   int
	log    string
	exited chan struct{} // closed once cmd.Wait returned
}

func wiPluginConfigs(chain []WiPlug) []config.PluginConfig {
	var pcs []config.PluginConfig
	for _, p := range chain {
		switch p.Name {
		case "logging", "request-id":
			pcs = append(pcs, config.PluginConfig{Name: p.Name})
		case "custom-auth":
			pcs = append(pcs, config.PluginConfig{Name: "custom-auth", Config: map[string]interface{}{"apiKey": p.Key}})
		case "headers":
			m := map[string]interface{}{}
			if len(p.Set) > 0 {
				s := map[string]interface{}{}
				for _, kv := range p.Set {
					s[kv[0]] = kv[1]
				}
				m["set"] = s
			}
			if len(p.ReqSet) > 0 {
				s := map[string]interface{}{}
				for _, kv := range p.ReqSet {
					s[kv[0]] = kv[1]
				}
				m["request_set"] = s
			}
			pcs = append(pcs, config.PluginConfig{Name: "headers", Config: m})
		case "size_limit":
			pcs = append(pcs, config.PluginConfig{Name: "size_limit", Config: map[string]interface{}{"max_request_body": p.MaxReq, "max_response_body": p.MaxResp}})
		case "gzip":
			pcs = append(pcs, config.PluginConfig{Name: "gzip", Config: map[string]interface{}{"level": 5, "min_size": 64, "content_types": []interface{}{"application/json"}}})
		default:
			pcs = append(pcs, config.PluginConfig{Name: p.Name})
		}
	}
	return pcs
}

func wiConfig(c WiCfg, port int, backendURLs []string) *config.Config {
	cfg := &config.Config{}
	cfg.Server.Port = port
	cfg.Server.Timeouts.Shutdown = 2
	cfg.Server.Timeouts.Handler = c.Handler
	for i, u := range backendURLs {
		cfg.Backends = append(cfg.Backends, config.BackendConfig{Name: fmt.Sprintf("b%d", i), Address: u + c.Base, Weight: 1 + i})
	}
	cfg.LoadBalancer.Strategy = c.Strategy
	if c.Limit {
		cfg.RateLimit = config.RateLimitConfig{Enabled: true, MaxTokens: 1, RefillRate: 3600}
	}
	if c.Passive {
		cfg.HealthChecks.Passive = config.PassiveHealthCheckConfig{Enabled: true, UnhealthyThreshold: 1, UnhealthyTimeout: 3600}
	}
	if c.Breaker {
		cfg.CircuitBreaker = config.CircuitBreakerConfig{Enabled: true, MaxRequests: 1, IntervalSeconds: 3600, TimeoutSeconds: 3600, FailureThreshold: 1000000, SuccessThreshold: 1}
	}
	cfg.Logging = config.LoggingConfig{Level: "error", Format: "json",
		RequestID: config.RequestIDConfig{Enabled: c.ReqID, Header: c.ReqHdr}, Trace: config.TraceConfig{Enabled: c.Trace, Header: c.TraceHdr}}
	pcs := wiPluginConfigs(c.Chain)
	cfg.Plugins = config.PluginsConfig{Enabled: len(pcs) > 0, Chain: pcs}
	return cfg
}

// startHelios writes the YAML, starts the real binary and waits until it accepts connections.  A start-up that fails
// because another process grabbed the port in the meantime is retried on a fresh port.
func startHelios(cfg *config.Config, tag string) (*heliosProc, error) {
	var hp *heliosProc
	var err error
	for attempt := 0; attempt < 6; attempt++ {
		if attempt > 0 {
			cfg.Server.Port = freePort()
		}
		hp, err = startHeliosOnce(cfg, tag)
		if err == nil || !strings.Contains(err.Error(), "address already in use") {
			return hp, err
		}
	}
	return hp, err
}

func startHeliosOnce(cfg *config.Config, tag string) (*heliosProc, error) {
	bin := envStr("VERIF_HELIOS_BIN", "")
	if bin == "" {
		return nil, fmt.Errorf("VERIF_HELIOS_BIN not set")
	}
	data, err := yaml.Marshal(cfg)
	if err != nil {
		return nil, err
	}
	yp := filepath.Join(OutDir(), tag+".yaml")
	if err := os.WriteFile(yp, data, 0o644); err != nil {
		return nil, err
	}
	lp := filepath.Join(OutDir(), tag+".log")
	lf, _ := os.Create(lp)
	cmd := exec.Command(bin, "-config", yp)
	cmd.Stdout, cmd.Stderr = lf, lf
	cmd.Dir = OutDir()
	if err := cmd.Start(); err != nil {
		return nil, err
	}
	lf.Close()
	exited := make(chan struct{})
	hp := &heliosProc{cmd: cmd, port: cfg.Server.Port, log: lp, exited: exited}
	go func() { cmd.Wait(); close(exited) }()
	deadline := time.Now().Add(8 * time.Second)
	for time.Now().Before(deadline) {
		select {
		case <-exited:
			b, _ := os.ReadFile(lp)
			return nil, fmt.Errorf("helios exited at start-up: %s", string(b))
		default:
		}
		c, err := net.DialTimeout("tcp", fmt.Sprintf("127.0.0.1:%d", hp.port), 100*time.Millisecond)
		if err == nil {
			c.Close()
			// make sure it is OUR process that listens (it is still running)
			select {
			case <-exited:
				b, _ := os.ReadFile(lp)
				return nil, fmt.Errorf("helios exited at start-up: %s", string(b))
			case <-time.After(20 * time.Millisecond):
			}
			return hp, nil
		}
		time.Sleep(5 * time.Millisecond)
	}
	cmd.Process.Kill()
	return nil, fmt.Errorf("helios did not listen on %d", hp.port)
}

func (h *heliosProc) stop() {
	h.cmd.Process.Signal(syscall.SIGKILL)
	time.Sleep(time.Millisecond)
	os.Remove(h.log)
}

func wiRequestBytes(r WiReq, host string) []byte {
	var b bytes.Buffer
	uri := r.Path
	if r.Query != "" {
		uri += "?" + r.Query
	}
	fmt.Fprintf(&b, "%s %s HTTP/1.1\r\nHost: %s\r\n", r.Method, uri, host)
	hasConn := false
	for _, kv := range r.Headers {
		fmt.Fprintf(&b, "%s: %s\r\n", kv[0], kv[1])
		if strings.EqualFold(kv[0], "Connection") {
			hasConn = true
		}
	}
	if !hasConn {
		b.WriteString("Connection: close\r\n")
	}
	body := detBytes(7, r.BodyLen)
	switch r.Framing {
	case "chunked":
		b.WriteString("Transfer-Encoding: chunked\r\n\r\n")
		for off := 0; off < len(body); {
			n := 11
			if off+n > len(body) {
				n = len(body) - off
			}
			fmt.Fprintf(&b, "%x\r\n", n)
			b.Write(body[off : off+n])
			b.WriteString("\r\n")
			off += n
		}
		b.WriteString("0\r\n\r\n")
	case "cl":
		fmt.Fprintf(&b, "Content-Length: %d\r\n\r\n", len(body))
		b.Write(body)
	default:
		b.WriteString("\r\n")
	}
	return b.Bytes()
}

// ---- Coq rendering ----

func coqHdrs(h [][2]string) string {
	items := make([]string, len(h))
	for i, kv := range h {
		items[i] = "(" + Bytes(kv[0]) + ", " + Bytes(kv[1]) + ")"
	}
	return List(items)
}

// flatHeader: canonical keys, sorted by key, values of one key in their order
func flatHeader(h http.Header, skip ...string) [][2]string {
	sk := map[string]bool{}
	for _, s := range skip {
		sk[http.CanonicalHeaderKey(s)] = true
	}
	var keys []string
	for k := range h {
		if !sk[k] {
			keys = append(keys, k)
		}
	}
	sort.Strings(keys)
	var out [][2]string
	for _, k := range keys {
		for _, v := range h[k] {
			out = append(out, [2]string{k, v})
		}
	}
	return out
}

func canonList(h [][2]string) [][2]string {
	out := make([][2]string, len(h))
	for i, kv := range h {
		out[i] = [2]string{http.CanonicalHeaderKey(kv[0]), kv[1]}
	}
	return out
}

func framingCode(f string) int {
	switch f {
	case "cl":
		return 1
	case "chunked":
		return 2
	case "close":
		return 3
	}
	return 0
}

func bodyCode(b []byte) int {
	if bytes.Equal(b, detBytes(0, len(b))) {
		return len(b)
	}
	return -1
}

func coqRespView(r wireResp) string {
	var interim []string
	for i, c := range r.Interim {
		interim = append(interim, fmt.Sprintf("(%d, %s)", c, coqHdrs(flatHeader(r.InterimH[i], "Date", "Connection", "Transfer-Encoding"))))
	}
	trunc := 0
	if r.Trunc || r.Err != "" {
		trunc = 1
	}
	return fmt.Sprintf("(mkRView %d %s %s %d %s %d)", r.Status, coqHdrs(flatHeader(r.Header, "Date", "Connection", "Transfer-Encoding")), ZI(bodyCode(r.Body)), framingCode(r.Framing), List(interim), trunc)
}

func coqBackView(v wiBackView) string {
	if !v.called {
		return "None"
	}
	bl := v.bodyLen
	if !v.bodyOK {
		bl = -1
	}
	return fmt.Sprintf("(Some (mkBView %s %s %s %s %s %s %d))", Bytes(v.method), Bytes(v.path), Bytes(v.query), Bytes(v.host), coqHdrs(flatHeader(v.hdr)), ZI(bl), v.framing)
}

func coqPlug(p WiPlug) string {
	switch p.Name {
	case "logging":
		return "WLogging"
	case "headers":
		// map iteration order inside one plugin is irrelevant as long as keys are distinct (the generator guarantees it)
		return fmt.Sprintf("(WHeaders %s %s)", coqHdrs(canonList(p.Set)), coqHdrs(canonList(p.ReqSet)))
	case "custom-auth":
		return fmt.Sprintf("(WAuth %s)", Bytes(p.Key))
	case "size_limit":
		return fmt.Sprintf("(WSizeLimit %d %d)", p.MaxReq, p.MaxResp)
	case "gzip":
		return "WGzip"
	case "request-id":
		return "WReqId"
	}
	return "WLogging"
}

func defaultHdr(h, def string) string {
	if strings.TrimSpace(h) == "" {
		return def
	}
	return strings.TrimSpace(h)
}

// ---- running one group: one helios process, several exchanges ----

type wiGroup struct {
	cfg   WiCfg
	cases []WiCase
}

func runWiGroup(g wiGroup, gidx int, emit func(c WiCase, coq string, stats map[string]int)) {
	be := &wiBackend{}
	nb := g.cfg.NBack
	if nb < 1 {
		nb = 1
	}
	var urls []string
	var srvs []*httptest.Server
	for i := 0; i < nb; i++ {
		s := httptest.NewServer(be)
		srvs = append(srvs, s)
		urls = append(urls, s.URL)
	}
	defer func() {
		for _, s := range srvs {
			s.Close()
		}
	}()
	b, _ := Batch()
	hp, err := startHelios(wiConfig(g.cfg, freePort(), urls), fmt.Sprintf("wire.%d.%d", b, gidx))
	if err != nil {
		panic(fmt.Sprintf("group %d: %v", gidx, err))
	}
	defer hp.stop()
	front := fmt.Sprintf("127.0.0.1:%d", hp.port)
	directAddr := strings.TrimPrefix(urls[0], "http://")
	seenIDs := map[string]bool{}
	ejected := false
	for ci, c := range g.cases {
		stats := map[string]int{}
		host := "wire.local"
		// priming exchanges for the non-proxied response paths
		switch c.Phase {
		case "limited":
			// the same request once before: the client's bucket (max_tokens 1) is then empty
			be.set(WiScript{Status: 200, Segs: []int{1}}, nil)
			rawExchange(front, wiRequestBytes(c.Req, host), c.Req.Method, 3*time.Second)
		case "ejected":
			if !ejected {
				for i := 0; i < 2*nb+2; i++ { // a 500 from every backend ejects each of them for an hour
					pr := WiReq{Method: "GET", Path: "/poison", Headers: [][2]string{{"X-Forwarded-For", fmt.Sprintf("10.9.%d.%d", gidx%250, i)}}}
					for _, p := range g.cfg.Chain {
						if p.Name == "custom-auth" {
							pr.Headers = append(pr.Headers, [2]string{"X-API-Key", p.Key})
							break
						}
					}
					be.set(WiScript{Status: 500, Segs: []int{1}}, nil)
					rawExchange(front, wiRequestBytes(pr, host), "GET", 3*time.Second)
				}
				ejected = true
			}
		}
		var prog atomic.Int64
		prog.Store(-1) // -1: the final header block has not arrived yet
		be.set(c.Script, &prog)
		through := rawExchangeP(front, wiRequestBytes(c.Req, host), c.Req.Method, 4*time.Second, func(n int) { prog.Store(int64(n)) })
		be.mu.Lock()
		bview, streamed := be.view, be.streamed
		be.mu.Unlock()
		// the same request made directly to the backend (address = backend base path + path)
		dreq := c.Req
		dreq.Path = joinPath(g.cfg.Base, c.Req.Path)
		var prog2 atomic.Int64
		prog2.Store(-1)
		be.set(c.Script, &prog2)
		direct := rawExchangeP(directAddr, wiRequestBytes(dreq, host), c.Req.Method, 4*time.Second, func(n int) { prog2.Store(int64(n)) })
		// ID bookkeeping: every generated-looking ID must be new
		unique := true
		for _, hn := range []string{defaultHdr(g.cfg.ReqHdr, "X-Request-ID"), defaultHdr(g.cfg.TraceHdr, "X-Trace-ID")} {
			for _, v := range through.Header.Values(hn) {
				if (strings.HasPrefix(v, "req_") || strings.HasPrefix(v, "trace_")) && !clientSent(c.Req, v) {
					if seenIDs[v] {
						unique = false
					}
					seenIDs[v] = true
				}
			}
		}
		phase := map[string]int{"normal": 0, "limited": 1, "ejected": 2}[c.Phase]
		var chain []string
		for _, p := range g.cfg.Chain {
			chain = append(chain, coqPlug(p))
		}
		cfgT := fmt.Sprintf("(mkWCfg %s %s %s %s %s %s %s)", B(g.cfg.ReqID), Bytes(http.CanonicalHeaderKey(defaultHdr(g.cfg.ReqHdr, "X-Request-ID"))),
			B(g.cfg.Trace), Bytes(http.CanonicalHeaderKey(defaultHdr(g.cfg.TraceHdr, "X-Trace-ID"))), List(chain), Bytes(g.cfg.Base), Bytes("127.0.0.1"))
		reqT := fmt.Sprintf("(mkWReq %s %s %s %s %s %d %d)", Bytes(c.Req.Method), Bytes(c.Req.Path), Bytes(c.Req.Query), Bytes(host), coqHdrs(canonList(c.Req.Headers)), c.Req.BodyLen, framingCode(c.Req.Framing))
		sflags := 0
		if (c.Script.Flush || c.Script.HeadFlush) && !c.Script.CL {
			sflags = 1 // streaming exchange: flushed segments (and a flushed header block) must arrive before the backend continues
		}
		coq := fmt.Sprintf("mkWiCase %s %d %s %d %s %s %s %s %s", cfgT, phase, reqT, sflags, coqRespView(direct), coqBackView(bview), coqRespView(through), B(streamed), B(unique))
		stats["phase_"+c.Phase]++
		stats[fmt.Sprintf("status_%d", through.Status)]++
		stats["method_"+c.Req.Method]++
		if len(c.Script.Interim) > 0 {
			stats["interim"]++
		}
		if sflags == 1 {
			stats["streaming"]++
		}
		if !bview.called {
			stats["backend_not_called"]++
		}
		_ = ci
		emit(c, coq, stats)
	}
}

func xffOf(r WiReq) string {
	for _, kv := range r.Headers {
		if strings.EqualFold(kv[0], "X-Forwarded-For") {
			return kv[1]
		}
	}
	return ""
}
func clientSent(r WiReq, v string) bool {
	for _, kv := range r.Headers {
		if strings.TrimSpace(kv[1]) == v {
			return true
		}
	}
	return false
}
func joinPath(base, p string) string {
	switch {
	case base == "":
		return p
	case strings.HasSuffix(base, "/") && strings.HasPrefix(p, "/"):
		return base + p[1:]
	case !strings.HasSuffix(base, "/") && !strings.HasPrefix(p, "/"):
		return base + "/" + p
	}
	return base + p
}

// ---- generators ----

var wiMethods = []string{"GET", "GET", "GET", "POST", "PUT", "DELETE", "PATCH", "HEAD", "OPTIONS"}
var wiPaths = []string{"/", "/a", "/a/b/c", "/a%20b", "/a%2Fb", "/x/../y", "//dbl", "/caf%C3%A9", "/a;p=1", "/very/" + strings.Repeat("long/", 30), "/a+b", "/~user", "/a%7Eb"}
var wiQueries = []string{"", "", "x=1", "a=1&b=2&a=3", "q=%20%2B", "k", "a=1;b=2", "x=%zz", "sp=a+b"}
var wiIDVals = []string{"abc", "  padded  ", "req_client_supplied", " nbsp-edge ", "x y", "", "   ", "ID-" + strings.Repeat("L", 200), "we!rd#$%&'*+.^_`|~", " emspace", "a,b", "\"quoted\""}

func genWiCfg(g *Rng) WiCfg {
	c := WiCfg{Strategy: []string{"round_robin", "weighted_round_robin", "least_connections", "ip_hash", "ip_hash_consistent"}[g.Intn(5)], NBack: g.Range(1, 2)}
	c.ReqID, c.Trace = g.Chance(75), g.Chance(65)
	if g.Chance(35) {
		c.ReqHdr = []string{"X-Correlation-Id", "x-my-req", "Request-Id", " X-Request-ID "}[g.Intn(4)]
	}
	if g.Chance(35) {
		c.TraceHdr = []string{"Traceparent-Lite", "x-b3-traceid", "X-Amzn-Trace"}[g.Intn(3)]
	}
	if g.Chance(30) {
		c.Base = []string{"/base", "/api/v1", "/b/"}[g.Intn(3)]
	}
	c.Limit = g.Chance(35)
	c.Passive = g.Chance(35)
	c.Breaker = g.Chance(35)
	if g.Chance(40) {
		c.Handler = []int{30, 60}[g.Intn(2)]
	}
	// chain: sub-multisets / permutations of the built-ins (length <= 5); `headers` plugins use distinct values of one key so that order shows
	n := []int{0, 0, 1, 1, 2, 2, 3, 4, 5}[g.Intn(9)]
	hcount := 0
	for i := 0; i < n; i++ {
		switch g.Intn(7) {
		case 6:
			// the tutorial plugin; together with the ID middleware it must not produce a second ID
			c.Chain = append(c.Chain, WiPlug{Name: "request-id"})
		case 0:
			c.Chain = append(c.Chain, WiPlug{Name: "logging"})
		case 1, 2:
			hcount++
			p := WiPlug{Name: "headers", Set: [][2]string{{"X-Order", fmt.Sprint(hcount)}, {fmt.Sprintf("X-Set-%d", hcount), "s"}}, ReqSet: [][2]string{{"X-Req-Order", fmt.Sprint(hcount)}, {fmt.Sprintf("X-From-%d", hcount), "lb"}}}
			if g.Chance(30) {
				p.ReqSet = nil
			}
			c.Chain = append(c.Chain, p)
		case 3:
			c.Chain = append(c.Chain, WiPlug{Name: "custom-auth", Key: []string{"k1", "secret key", "K1", " "}[g.Intn(4)]})
		case 4:
			c.Chain = append(c.Chain, WiPlug{Name: "size_limit", MaxReq: []int{16, 64, 200000}[g.Intn(3)], MaxResp: 400000})
		default:
			c.Chain = append(c.Chain, WiPlug{Name: "gzip"})
		}
	}
	return c
}

func hasPlug(c WiCfg, name string) bool {
	for _, p := range c.Chain {
		if p.Name == name {
			return true
		}
	}
	return false
}

func genWiCase(g *Rng, cfg WiCfg, k int, gidx int) WiCase {
	c := WiCase{Cfg: cfg, Phase: "normal"}
	r := WiReq{Method: wiMethods[g.Intn(len(wiMethods))], Path: wiPaths[g.Intn(len(wiPaths))], Query: wiQueries[g.Intn(len(wiQueries))]}
	// a client address of its own for every exchange (so the limiter starts from a full bucket)
	r.Headers = append(r.Headers, [2]string{"X-Forwarded-For", fmt.Sprintf("10.%d.%d.%d", gidx%250, k/250, k%250)})
	if g.Chance(15) {
		r.Headers[0][1] += ", 192.0.2.7"
	}
	// end-to-end headers: multi-valued, empty, unusual
	for i := g.Intn(4); i > 0; i-- {
		r.Headers = append(r.Headers, [2]string{[]string{"X-App", "x-lower-case", "Accept", "Cookie", "X-Multi", "Authorization", "If-None-Match", "X-Empty"}[g.Intn(8)],
			[]string{"v1", "a, b", "", "text/html;q=0.9", "tok=\"q\"; x", "W/\"etag\"", "café", strings.Repeat("v", 300)}[g.Intn(8)]})
	}
	if g.Chance(25) {
		r.Headers = append(r.Headers, [2]string{"X-Multi", "second"})
	}
	if g.Chance(1) { // a large request header block
		for i := 0; i < 3; i++ {
			r.Headers = append(r.Headers, [2]string{"Cookie", fmt.Sprintf("s%d=%s", i, strings.Repeat("y", 4000+g.Intn(2000)))})
		}
	}
	if g.Chance(40) && !hasPlug(cfg, "gzip") {
		r.Headers = append(r.Headers, [2]string{"Accept-Encoding", []string{"gzip", "gzip, deflate, br", "identity", "br"}[g.Intn(4)]})
	}
	if g.Chance(50) {
		r.Headers = append(r.Headers, [2]string{"User-Agent", "wire-client/1.0"})
	}
	// what a browser adds: a CORS preflight, a cross-origin request, conditional and range requests
	if r.Method == "OPTIONS" && g.Chance(70) {
		r.Headers = append(r.Headers, [2]string{"Origin", "https://app.example"}, [2]string{"Access-Control-Request-Method", []string{"POST", "DELETE", "GET"}[g.Intn(3)]})
		if g.Chance(50) {
			r.Headers = append(r.Headers, [2]string{"Access-Control-Request-Headers", "x-api-key, content-type"})
		}
	} else if g.Chance(12) {
		r.Headers = append(r.Headers, [][2]string{{"Origin", "https://app.example"}, {"Range", "bytes=0-9"}, {"If-Modified-Since", "Wed, 21 Oct 2015 07:28:00 GMT"}, {"Upgrade-Insecure-Requests", "1"}, {"Sec-Fetch-Mode", "cors"}}[g.Intn(5)])
	}
	// hop-by-hop material
	if g.Chance(25) {
		r.Headers = append(r.Headers, [2]string{"Connection", []string{"close, X-Hop", "close", "X-Hop, close", "close, x-hop,Keep-Alive"}[g.Intn(4)]})
		r.Headers = append(r.Headers, [2]string{"X-Hop", "secret-hop"})
		if g.Chance(50) {
			r.Headers = append(r.Headers, [2]string{"Keep-Alive", "timeout=5"})
		}
	}
	if g.Chance(10) {
		r.Headers = append(r.Headers, [2]string{"Proxy-Authorization", "Basic abc"})
	}
	if g.Chance(8) {
		r.Headers = append(r.Headers, [2]string{"Te", []string{"trailers", "gzip", "trailers, deflate"}[g.Intn(3)]})
	}
	// client-supplied IDs
	rh, th := defaultHdr(cfg.ReqHdr, "X-Request-ID"), defaultHdr(cfg.TraceHdr, "X-Trace-ID")
	if g.Chance(55) {
		r.Headers = append(r.Headers, [2]string{strings.TrimSpace(rh), wiIDVals[g.Intn(len(wiIDVals))]})
		if g.Chance(10) {
			r.Headers = append(r.Headers, [2]string{strings.TrimSpace(rh), "second-value"})
		}
	}
	if g.Chance(45) {
		r.Headers = append(r.Headers, [2]string{strings.TrimSpace(th), wiIDVals[g.Intn(len(wiIDVals))]})
	}
	// the tutorial plugin's own header, also when the ID features are configured on other names
	if hasPlug(cfg, "request-id") && !strings.EqualFold(strings.TrimSpace(rh), "X-Request-ID") && !strings.EqualFold(strings.TrimSpace(th), "X-Request-ID") && g.Chance(60) {
		r.Headers = append(r.Headers, [2]string{"X-Request-ID", []string{"client-chosen-1", "abc", "ID-" + strings.Repeat("L", 40)}[g.Intn(3)]})
	}
	for _, p := range cfg.Chain {
		if p.Name == "custom-auth" && g.Chance(80) {
			r.Headers = append(r.Headers, [2]string{"X-API-Key", p.Key})
		} else if p.Name == "custom-auth" && g.Chance(50) {
			r.Headers = append(r.Headers, [2]string{"X-API-Key", p.Key + "x"})
		}
	}
	// bodies also on methods that usually have none (the request gate of a plugin must not depend on the method)
	if r.Method == "POST" || r.Method == "PUT" || r.Method == "PATCH" || (r.Method == "DELETE" && g.Chance(30)) || ((r.Method == "GET" || r.Method == "OPTIONS") && g.Chance(15)) {
		r.Framing = []string{"cl", "cl", "chunked"}[g.Intn(3)]
		r.BodyLen = []int{0, 1, 15, 16, 17, 63, 64, 65, 1000, 40000, 100000}[g.Intn(11)]
	}
	// an upload announced with Expect: 100-continue: the client must see the interim responses a direct client sees, once
	if r.BodyLen > 0 && g.Chance(20) {
		r.Headers = append(r.Headers, [2]string{"Expect", "100-continue"})
	}
	for _, p := range cfg.Chain {
		// a chunked body above a size limit is cut by MaxBytesReader: that is size_limit's own transformation (C14), not this suite's
		if p.Name == "size_limit" && r.Framing == "chunked" && r.BodyLen > p.MaxReq {
			r.Framing = "cl"
		}
	}
	c.Req = r
	// backend script
	s := WiScript{Status: []int{200, 200, 200, 201, 204, 301, 302, 304, 400, 404, 404, 500, 503}[g.Intn(13)]}
	if cfg.Passive && s.Status >= 500 {
		s.Status = 404 // keep the backends in rotation during the normal phase
	}
	s.Headers = append(s.Headers, [2]string{"Content-Type", []string{"text/plain; charset=utf-8", "application/octet-stream", "text/event-stream", "text/html"}[g.Intn(4)]})
	if g.Chance(10) {
		s.Headers = s.Headers[:0] // no content type: the front server must not invent one the backend did not send
	}
	for i := g.Intn(4); i > 0; i-- {
		s.Headers = append(s.Headers, [2]string{[]string{"X-Backend", "Set-Cookie", "Cache-Control", "Etag", "X-Dup", "Location", "Vary"}[g.Intn(7)],
			[]string{"b1", "a=1; Path=/", "no-store", "W/\"x\"", "dup", "/elsewhere", "Accept-Encoding"}[g.Intn(7)]})
	}
	if g.Chance(20) {
		s.Headers = append(s.Headers, [2]string{"X-Dup", "second"})
	}
	if g.Chance(1) { // a large header block (cookies, CSP): 9 .. 13 KiB, 40 KiB in the thorough tier
		n := 3
		if Tier() == "thorough" && g.Chance(30) {
			n = 12
		}
		for i := 0; i < n; i++ {
			s.Headers = append(s.Headers, [2]string{"Set-Cookie", fmt.Sprintf("c%d=%s; Path=/", i, strings.Repeat("x", 3000+g.Intn(1500)))})
		}
	}
	if g.Chance(12) { // the backend sets an ID header of its own
		s.Headers = append(s.Headers, [2]string{strings.TrimSpace(rh), "backend-chosen"})
	}
	if g.Chance(10) {
		s.Headers = append(s.Headers, [2]string{"Keep-Alive", "timeout=9"})
	}
	if g.Chance(12) {
		n := g.Range(1, 2)
		for i := 0; i < n; i++ {
			s.Interim = append(s.Interim, [][2]string{{"Link", fmt.Sprintf("</s%d.css>; rel=preload", i)}})
		}
	}
	if s.Status != 204 && s.Status != 304 {
		switch g.Intn(6) {
		case 0:
		case 1:
			s.Segs = []int{g.Range(1, 100)}
		case 2:
			s.Segs = []int{g.Range(1, 50), g.Range(1, 50), g.Range(1, 50)}
		case 3:
			s.Segs = []int{32768, 32768, 1}
		case 4:
			s.Segs = []int{g.Range(1, 3000)}
		default:
			s.Segs = []int{7, 9}
		}
	}
	s.CL = g.Chance(45)
	s.Flush = g.Chance(50)
	if !s.CL && g.Chance(12) { // a quiet event source: the header block is flushed on its own
		s.HeadFlush = true
	}
	if !s.CL && s.Flush && len(s.Segs) > 0 && len(s.Interim) == 0 && g.Chance(8) { // the backend dies mid-response
		s.Cut = true
	}
	c.Script = s
	return c
}

func wiCorpus() []wiGroup {
	idcfg := WiCfg{ReqID: true, Trace: true, Strategy: "round_robin", NBack: 1}
	mk := func(cfg WiCfg, phase string, r WiReq, s WiScript) WiCase {
		return WiCase{Cfg: cfg, Phase: phase, Req: r, Script: s}
	}
	xf := func(i int) [2]string { return [2]string{"X-Forwarded-For", fmt.Sprintf("10.250.0.%d", i)} }
	sse := WiScript{Status: 200, Headers: [][2]string{{"Content-Type", "text/event-stream"}}, Segs: []int{14, 14, 14}, Flush: true}
	g1 := wiGroup{cfg: idcfg, cases: []WiCase{
		mk(idcfg, "normal", WiReq{Method: "GET", Path: "/sse", Headers: [][2]string{xf(1)}}, sse),
		mk(idcfg, "normal", WiReq{Method: "GET", Path: "/plain", Headers: [][2]string{xf(2)}}, WiScript{Status: 200, Headers: [][2]string{{"Content-Type", "text/plain"}}, Segs: []int{5}, CL: true}),
		mk(idcfg, "normal", WiReq{Method: "GET", Path: "/ids", Headers: [][2]string{xf(3), {"X-Request-ID", "abc "}, {"X-Trace-ID", " t1 "}}}, WiScript{Status: 200, Segs: []int{3}}),
		mk(idcfg, "normal", WiReq{Method: "GET", Path: "/hints", Headers: [][2]string{xf(4)}}, WiScript{Interim: [][][2]string{{{"Link", "</s.css>; rel=preload"}}}, Status: 200, Headers: [][2]string{{"Content-Type", "text/html"}}, Segs: []int{10}}),
		mk(idcfg, "normal", WiReq{Method: "GET", Path: "/noae", Headers: [][2]string{xf(5)}}, WiScript{Status: 200, Headers: [][2]string{{"Content-Type", "application/json"}}, Segs: []int{300}}),
		mk(idcfg, "normal", WiReq{Method: "POST", Path: "/up", Headers: [][2]string{xf(6)}, BodyLen: 70000, Framing: "chunked"}, WiScript{Status: 201, Segs: []int{2}}),
		mk(idcfg, "normal", WiReq{Method: "HEAD", Path: "/h", Headers: [][2]string{xf(7)}}, WiScript{Status: 200, Headers: [][2]string{{"Content-Type", "text/plain"}}, Segs: []int{9}, CL: true}),
		// the header block flushed on its own, then one late event; a backend that dies after two flushed chunks
		mk(idcfg, "normal", WiReq{Method: "GET", Path: "/quiet", Headers: [][2]string{xf(20)}}, WiScript{Status: 200, Headers: [][2]string{{"Content-Type", "text/event-stream"}}, Segs: []int{14}, Flush: true, HeadFlush: true}),
		mk(idcfg, "normal", WiReq{Method: "GET", Path: "/dies", Headers: [][2]string{xf(21)}}, WiScript{Status: 200, Headers: [][2]string{{"Content-Type", "text/plain"}}, Segs: []int{10, 20}, Flush: true, Cut: true}),
		// header blocks well above 8 KiB in both directions
		mk(idcfg, "normal", WiReq{Method: "GET", Path: "/cookies", Headers: [][2]string{xf(8), {"Cookie", "s=" + strings.Repeat("y", 12000)}}},
			WiScript{Status: 201, Headers: [][2]string{{"Content-Type", "text/plain"}, {"Set-Cookie", "a=" + strings.Repeat("x", 4000)}, {"Set-Cookie", "b=" + strings.Repeat("x", 4000)}, {"Set-Cookie", "c=" + strings.Repeat("x", 4000)}, {"Content-Security-Policy", strings.Repeat("p", 9000)}}, Segs: []int{5}, CL: true}),
		// a body on a method that usually has none, above and below a size limit elsewhere in the corpus
		mk(idcfg, "normal", WiReq{Method: "GET", Path: "/getbody", Headers: [][2]string{xf(9)}, BodyLen: 17, Framing: "cl"}, WiScript{Status: 200, Segs: []int{3}}),
	}}
	lim := WiCfg{ReqID: true, Trace: true, Strategy: "round_robin", NBack: 1, Limit: true, Passive: true,
		Chain: []WiPlug{{Name: "headers", Set: [][2]string{{"X-Order", "1"}}, ReqSet: [][2]string{{"X-Req-Order", "1"}}}, {Name: "custom-auth", Key: "k1"}, {Name: "size_limit", MaxReq: 16, MaxResp: 400000}, {Name: "headers", Set: [][2]string{{"X-Order", "2"}}, ReqSet: [][2]string{{"X-Req-Order", "2"}}}}}
	ok := WiScript{Status: 200, Segs: []int{4}}
	g2 := wiGroup{cfg: lim, cases: []WiCase{
		mk(lim, "normal", WiReq{Method: "GET", Path: "/ok", Headers: [][2]string{xf(10), {"X-API-Key", "k1"}}}, ok),
		mk(lim, "normal", WiReq{Method: "GET", Path: "/noauth", Headers: [][2]string{xf(11)}}, ok),
		mk(lim, "normal", WiReq{Method: "POST", Path: "/big", Headers: [][2]string{xf(12), {"X-API-Key", "k1"}}, BodyLen: 17, Framing: "cl"}, ok),
		mk(lim, "normal", WiReq{Method: "GET", Path: "/biggeT", Headers: [][2]string{xf(15), {"X-API-Key", "k1"}}, BodyLen: 17, Framing: "cl"}, ok),
		mk(lim, "normal", WiReq{Method: "OPTIONS", Path: "/preflight", Headers: [][2]string{xf(17), {"Origin", "https://app.example"}, {"Access-Control-Request-Method", "POST"}}}, ok),
		mk(lim, "normal", WiReq{Method: "OPTIONS", Path: "/preflight2", Headers: [][2]string{xf(18), {"Origin", "https://app.example"}, {"Access-Control-Request-Method", "POST"}, {"X-API-Key", "wrong"}}}, ok),
		mk(lim, "normal", WiReq{Method: "OPTIONS", Path: "/bigopt", Headers: [][2]string{xf(16), {"X-API-Key", "k1"}}, BodyLen: 4000, Framing: "cl"}, ok),
		mk(lim, "limited", WiReq{Method: "GET", Path: "/lim", Headers: [][2]string{xf(13), {"X-API-Key", "k1"}, {"X-Request-ID", "mine"}}}, ok),
		mk(lim, "ejected", WiReq{Method: "GET", Path: "/ej", Headers: [][2]string{xf(14), {"X-API-Key", "k1"}}}, ok),
	}}
	// the documented handler timeout set below a slow backend's thinking time (nothing in the chain may turn that into an
	// answer of its own without the IDs); the breaker enabled and closed in front of chunked error pages; an upload announced
	// with Expect: 100-continue, accepted and refused from the header alone
	slow := WiCfg{ReqID: true, Trace: true, Strategy: "round_robin", NBack: 1, Handler: 1, Breaker: true,
		Chain: []WiPlug{{Name: "custom-auth", Key: "k1"}}}
	g3 := wiGroup{cfg: slow, cases: []WiCase{
		mk(slow, "normal", WiReq{Method: "GET", Path: "/slow", Headers: [][2]string{xf(30), {"X-API-Key", "k1"}, {"X-Request-ID", "slow-1"}}}, WiScript{Status: 200, Segs: []int{6}, Delay: 1400}),
		mk(slow, "normal", WiReq{Method: "GET", Path: "/err-chunked", Headers: [][2]string{xf(31), {"X-API-Key", "k1"}}}, WiScript{Status: 500, Headers: [][2]string{{"Content-Type", "text/plain"}}, Segs: []int{10}, Flush: true}),
		mk(slow, "normal", WiReq{Method: "GET", Path: "/err-long", Headers: [][2]string{xf(32), {"X-API-Key", "k1"}}}, WiScript{Status: 503, Headers: [][2]string{{"Content-Type", "text/html"}}, Segs: []int{3000}}),
		mk(slow, "normal", WiReq{Method: "PUT", Path: "/upload", Headers: [][2]string{xf(33), {"X-API-Key", "k1"}, {"Expect", "100-continue"}}, BodyLen: 1000, Framing: "cl"}, WiScript{Status: 201, Segs: []int{2}}),
		mk(slow, "normal", WiReq{Method: "PUT", Path: "/upload-noauth", Headers: [][2]string{xf(34), {"Expect", "100-continue"}}, BodyLen: 1000, Framing: "cl"}, WiScript{Status: 201, Segs: []int{2}}),
		mk(slow, "normal", WiReq{Method: "PUT", Path: "/upload-refused", Headers: [][2]string{xf(36), {"X-API-Key", "k1"}, {"Expect", "100-continue"}}, BodyLen: 1000, Framing: "cl"}, WiScript{Status: 401, Segs: []int{5}, CL: true, Early: true}),
		mk(slow, "normal", WiReq{Method: "POST", Path: "/upload-chunked", Headers: [][2]string{xf(35), {"X-API-Key", "k1"}, {"Expect", "100-continue"}, {"X-Request-ID", "\u00a0"}}, BodyLen: 64, Framing: "chunked"}, WiScript{Status: 200, Segs: []int{2}}),
	}}
	// the tutorial request-id plugin behind an ID middleware that is configured on another header name: an X-Request-ID of the
	// client is the client's, whatever the correlation header carries
	corr := WiCfg{ReqID: true, ReqHdr: "X-Correlation-Id", Trace: true, Strategy: "round_robin", NBack: 1, Chain: []WiPlug{{Name: "request-id"}}}
	g4 := wiGroup{cfg: corr, cases: []WiCase{
		mk(corr, "normal", WiReq{Method: "GET", Path: "/own-id", Headers: [][2]string{xf(40), {"X-Request-ID", "client-chosen-1"}}}, ok),
		mk(corr, "normal", WiReq{Method: "GET", Path: "/both-ids", Headers: [][2]string{xf(41), {"X-Request-ID", "client-chosen-2"}, {"X-Correlation-Id", "corr-7"}}}, ok),
		mk(corr, "normal", WiReq{Method: "GET", Path: "/corr-only", Headers: [][2]string{xf(42), {"X-Correlation-Id", "corr-8"}}}, ok),
		mk(corr, "normal", WiReq{Method: "GET", Path: "/no-id", Headers: [][2]string{xf(43)}}, ok),
	}}
	return []wiGroup{g1, g2, g3, g4}
}

func TestWire(t *testing.T) {
	cw := NewCaseWriter("wire")
	idx := 0
	put := func(kind string) func(c WiCase, coq string, stats map[string]int) {
		return func(c WiCase, coq string, stats map[string]int) {
			repl, _ := json.Marshal(c)
			cw.Put(Case{Idx: idx, Kind: kind, Coq: coq, Repl: repl, Stats: stats})
			idx++
		}
	}
	if rp := ReplayCases(); rp != nil {
		for gi, raw := range rp {
			var c WiCase
			if err := json.Unmarshal(raw, &c); err != nil {
				panic(err)
			}
			runWiGroup(wiGroup{cfg: c.Cfg, cases: []WiCase{c}}, gi, put("replay"))
		}
		cw.Close()
		return
	}
	gidx := 0
	for _, g := range wiCorpus() {
		if Mine(gidx) {
			idx = gidx * 1000
			runWiGroup(g, gidx, put("corpus"))
		}
		gidx++
	}
	ngroups, per := 24, 40
	if Tier() == "thorough" {
		ngroups, per = 160, 120
	}
	root := NewRng(Seed() + 4242)
	for j := 0; j < ngroups; j++ {
		if Mine(gidx) {
			g := root.Fork(uint64(j))
			cfg := genWiCfg(g)
			grp := wiGroup{cfg: cfg}
			for k := 0; k < per; k++ {
				grp.cases = append(grp.cases, genWiCase(g.Fork(uint64(1000+k)), cfg, k, gidx))
			}
			// the non-proxied paths at the end of the group: limiter refusals, then no healthy backend
			if cfg.Limit {
				for k := 0; k < 3; k++ {
					c := genWiCase(g.Fork(uint64(5000+k)), cfg, per+k, gidx)
					c.Phase = "limited"
					grp.cases = append(grp.cases, c)
				}
			}
			if cfg.Passive {
				for k := 0; k < 3; k++ {
					c := genWiCase(g.Fork(uint64(6000+k)), cfg, per+10+k, gidx)
					c.Phase = "ejected"
					grp.cases = append(grp.cases, c)
				}
			}
			idx = gidx * 1000
			runWiGroup(grp, gidx, put("random"))
		}
		gidx++
	}
	cw.Close()
}
