package verifharness

import (
	"encoding/json"
	"fmt"
	"hash/adler32"
	"hash/crc32"
	"hash/fnv"
	"sync"
	"syscall"
	"testing"
	"testing/synctest"
	"time"

	"github.com/0xReLogic/Helios/internal/ratelimiter"
)

// ---- limiter suite: the real TokenBucketRateLimiter under virtual time ----

type LimOp struct {
	K string `json:"k"`           // A = one Allow, B = burst of N concurrent Allows, T = time passes
	C int    `json:"c,omitempty"` // client id
	N int    `json:"n,omitempty"`
	D int64  `json:"d,omitempty"` // ns
}
type LimCase struct {
	Max  int     `json:"max"`
	Rate int64   `json:"rate"` // ns per token
	Ops  []LimOp `json:"ops"`
}

const limCleanupTick = int64(10 * time.Minute) // ratelimiter.go: cleanupTick

// Client names.  Ids below 100 are plain; ids 100.. name address pairs chosen to be as confusable as distinct strings get:
// pairs of IPv4 literals that collide under the 32-bit hashes a key-shortening change would reach for (FNV-1a, FNV-1,
// CRC-32, Adler-32; found by a birthday search at start-up), a long common prefix, differing case, a trailing space.
var limNames = map[int]string{}

func init() {
	type hf struct {
		name string
		f    func(string) uint32
	}
	hs := []hf{
		{"fnv1a", func(s string) uint32 { h := fnv.New32a(); h.Write([]byte(s)); return h.Sum32() }},
		{"fnv1", func(s string) uint32 { h := fnv.New32(); h.Write([]byte(s)); return h.Sum32() }},
		{"crc32", func(s string) uint32 { return crc32.ChecksumIEEE([]byte(s)) }},
		{"adler32", func(s string) uint32 { return adler32.Checksum([]byte(s)) }},
	}
	id := 100
	for _, h := range hs {
		seen := map[uint32]string{}
		found := false
		for a := 0; a < 256 && !found; a++ {
			for b := 0; b < 256 && !found; b++ {
				for c := 1; c < 255 && !found; c++ {
					addr := fmt.Sprintf("10.%d.%d.%d", a, b, c)
					k := h.f(addr)
					if prev, ok := seen[k]; ok {
						limNames[id], limNames[id+1] = prev, addr
						found = true
					}
					seen[k] = addr
				}
			}
		}
		id += 2
	}
	limNames[id], limNames[id+1] = "2001:db8:0:0:0:0:0:1", "2001:db8:0:0:0:0:0:2" // long common prefix
	id += 2
	limNames[id], limNames[id+1] = "2001:db8::a", "2001:DB8::A"
	id += 2
	limNames[id], limNames[id+1] = "10.1.1.1", "10.1.1.1 "
	limPairs = (id + 2 - 100) / 2
}

var limPairs int

func limClient(c int) string {
	if n, ok := limNames[c]; ok {
		return n
	}
	return fmt.Sprintf("c%d", c)
}

func genLimCase(r *Rng, kind string) LimCase {
	rates := []int64{1, 1000, int64(time.Millisecond), int64(time.Second), 7 * int64(time.Second), int64(time.Minute),
		20 * int64(time.Minute), 30 * int64(time.Minute), 45 * int64(time.Minute), int64(time.Hour), 2 * int64(time.Hour)}
	c := LimCase{Max: r.Range(1, 5), Rate: r.PickI64(rates)}
	if kind == "small-rate" {
		c.Rate = r.PickI64(rates[:6])
	}
	nclients := r.Range(1, 4)
	nops := r.Range(4, 40)
	base := 0 // clients are base+1 .. base+nclients
	if kind == "confusable" {
		nclients = 2
		base = 100 + 2*r.Intn(limPairs) - 1
	}
	rr := c.Rate
	gaps := []int64{0, 1, rr - 1, rr, rr + 1, 2*rr - 1, 2 * rr, 3*rr + 1, int64(c.Max) * rr, int64(c.Max)*rr - 1, int64(c.Max+1) * rr,
		limCleanupTick - 1, limCleanupTick, limCleanupTick + 1, int64(time.Hour) - 1, int64(time.Hour), int64(time.Hour) + 1,
		61 * int64(time.Minute), 71 * int64(time.Minute), 2*int64(time.Hour) + 5}
	for i := 0; i < nops; i++ {
		switch x := r.Intn(100); {
		case x < 45:
			c.Ops = append(c.Ops, LimOp{K: "A", C: base + r.Range(1, nclients)})
		case x < 65:
			c.Ops = append(c.Ops, LimOp{K: "B", C: base + r.Range(1, nclients), N: r.Range(2, c.Max+3)})
		default:
			d := r.PickI64(gaps)
			if d < 0 {
				d = 0
			}
			if r.Chance(20) {
				d = int64(r.Intn(int(min64(3*rr+2, int64(3*time.Hour)))))
			}
			if d > int64(3*time.Hour) {
				d = int64(3 * time.Hour)
			}
			c.Ops = append(c.Ops, LimOp{K: "T", D: d})
		}
	}
	return c
}

func min64(a, b int64) int64 {
	if a < b {
		return a
	}
	return b
}

// limCorpus: hand-written histories that run first (known-finding witness and boundary cases).
func limCorpus() []LimCase {
	h := int64(time.Hour)
	m := int64(time.Minute)
	s := int64(time.Second)
	return []LimCase{
		// clean-up re-grant witness: max=2, refill=2h; 3 requests, 71 min, 3 requests
		{Max: 2, Rate: 2 * h, Ops: []LimOp{{K: "A", C: 1}, {K: "A", C: 1}, {K: "A", C: 1}, {K: "T", D: 70 * m}, {K: "T", D: m}, {K: "A", C: 1}, {K: "A", C: 1}, {K: "A", C: 1}}},
		// shipped-style configuration: 5 tokens, 1 s
		{Max: 5, Rate: s, Ops: []LimOp{{K: "B", C: 1, N: 8}, {K: "T", D: s - 1}, {K: "A", C: 1}, {K: "T", D: 1}, {K: "A", C: 1}, {K: "A", C: 1}, {K: "T", D: 3 * s}, {K: "B", C: 1, N: 5}}},
		// fractional remainder is dropped on refill
		{Max: 3, Rate: 10 * s, Ops: []LimOp{{K: "B", C: 1, N: 3}, {K: "T", D: 19 * s}, {K: "A", C: 1}, {K: "A", C: 1}, {K: "T", D: 9 * s}, {K: "A", C: 1}, {K: "T", D: s}, {K: "A", C: 1}}},
		// two clients, idle past clean-up cut-off with a refill shorter than 1h
		{Max: 2, Rate: 20 * m, Ops: []LimOp{{K: "B", C: 1, N: 3}, {K: "B", C: 2, N: 2}, {K: "T", D: h + 11*m}, {K: "B", C: 1, N: 3}, {K: "A", C: 2}}},
		// 64 simultaneous callers on one bucket
		{Max: 5, Rate: s, Ops: []LimOp{{K: "B", C: 1, N: 64}, {K: "T", D: 2 * s}, {K: "B", C: 1, N: 64}}},
		// many full bursts of overlapping callers, each on a client of its own: every one of them is admitted (nobody is turned
		// away because another caller of the same client happens to be inside the limiter)
		func() LimCase {
			c := LimCase{Max: 64, Rate: h}
			for i := 0; i < 60; i++ {
				c.Ops = append(c.Ops, LimOp{K: "B", C: 200 + i, N: 64})
			}
			return c
		}(),
		// a clean-up tick in the middle of an idle gap, at a fractional offset of the refill period: what was waited before it counts
		{Max: 3, Rate: h, Ops: []LimOp{{K: "B", C: 1, N: 3}, {K: "T", D: h + 30*m}, {K: "T", D: 45 * m}, {K: "B", C: 1, N: 3}}},
		{Max: 2, Rate: 25 * m, Ops: []LimOp{{K: "B", C: 1, N: 2}, {K: "T", D: 35 * m}, {K: "T", D: 20 * m}, {K: "A", C: 1}, {K: "A", C: 1}, {K: "A", C: 1}}},
		// more distinct clients than any plausible table cap while one client is drained
		limManyClients(10500),
		// isolation between confusable addresses: one spends its burst, the other is new
		{Max: 2, Rate: h, Ops: []LimOp{{K: "B", C: 100, N: 4}, {K: "A", C: 101}, {K: "A", C: 101}, {K: "A", C: 101}}},
		{Max: 1, Rate: h, Ops: []LimOp{{K: "A", C: 102}, {K: "A", C: 103}, {K: "A", C: 104}, {K: "A", C: 105}, {K: "A", C: 106}, {K: "A", C: 107}, {K: "A", C: 108}, {K: "A", C: 109},
			{K: "A", C: 110}, {K: "A", C: 111}, {K: "A", C: 112}, {K: "A", C: 113}}},
	}
}

func limManyClients(n int) LimCase {
	c := LimCase{Max: 2, Rate: int64(time.Hour)}
	c.Ops = append(c.Ops, LimOp{K: "B", C: 1, N: 3})
	for i := 0; i < n; i++ {
		c.Ops = append(c.Ops, LimOp{K: "A", C: 1000 + i})
	}
	c.Ops = append(c.Ops, LimOp{K: "A", C: 1}, LimOp{K: "A", C: 1})
	return c
}

func runLimCase(c LimCase) (coq string, stats map[string]int) {
	stats = map[string]int{}
	rl := ratelimiter.NewTokenBucketRateLimiter(c.Max, time.Duration(c.Rate))
	synctest.Wait() // let the clean-up goroutine create its ticker at t0
	t0 := time.Now().UnixNano()
	now := t0
	var ops []string
	var obs []string
	for _, op := range c.Ops {
		switch op.K {
		case "A":
			ok := rl.Allow(limClient(op.C))
			ops = append(ops, "LAllow "+ZI(op.C))
			obs = append(obs, B01(ok))
			stats["allow"]++
			if !ok {
				stats["deny"]++
			}
		case "B":
			var wg sync.WaitGroup
			res := make([]bool, op.N)
			start := make(chan struct{}) // all callers are released at once: their calls really overlap
			for i := 0; i < op.N; i++ {
				wg.Add(1)
				go func(i int) { defer wg.Done(); <-start; res[i] = rl.Allow(limClient(op.C)) }(i)
			}
			synctest.Wait()
			close(start)
			wg.Wait()
			adm := 0
			for _, ok := range res {
				if ok {
					adm++
				}
			}
			// concurrent callers of one bucket at one instant: only the number admitted is
			// order-independent; the model admits first-come, so report admits first.
			for i := 0; i < op.N; i++ {
				ops = append(ops, "LAllow "+ZI(op.C))
				obs = append(obs, B01(i < adm))
			}
			stats["burst"]++
			stats["allow"] += op.N
			stats["deny"] += op.N - adm
		case "T":
			time.Sleep(time.Duration(op.D))
			synctest.Wait()
			end := now + op.D
			// make the ticker's clean-up runs explicit: ticks at t0 + k*10min in (now, end]
			for {
				next := t0 + ((now-t0)/limCleanupTick+1)*limCleanupTick
				if next > end {
					break
				}
				ops = append(ops, "LAdvance "+Z(next-now), "LCleanup")
				now = next
				stats["cleanup"]++
			}
			if end > now {
				ops = append(ops, "LAdvance "+Z(end-now))
			}
			now = end
			stats["advance"]++
			if op.D >= c.Rate {
				stats["gap>=rate"]++
			}
		}
	}
	if got := time.Now().UnixNano(); got != now {
		panic(fmt.Sprintf("virtual clock drift: %d vs %d", got, now))
	}
	coq = fmt.Sprintf("mkLimCase %s %s %s %s %s", ZI(c.Max), Z(c.Rate), Z(t0), List(ops), List(obs))
	return coq, stats
}

func TestLimiter(t *testing.T) {
	synctest.Test(t, func(t *testing.T) {
		cw := NewCaseWriter("limiter")
		idx := 0
		emit := func(kind string, c LimCase) {
			if Mine(idx) {
				if pre, err := json.Marshal(c); err == nil {
					cw.Begin(idx, kind, pre)
				}
				coq, stats := runLimCase(c)
				repl, _ := json.Marshal(c)
				cw.Put(Case{Idx: idx, Kind: kind, Coq: coq, Repl: repl, Stats: stats})
			}
			idx++
		}
		if rp := ReplayCases(); rp != nil {
			for _, raw := range rp {
				var c LimCase
				if err := json.Unmarshal(raw, &c); err != nil {
					panic(err)
				}
				emit("replay", c)
			}
		} else {
			for _, c := range limCorpus() {
				emit("corpus", c)
			}
			n := 600
			if Tier() == "thorough" {
				n = 12000
			}
			root := NewRng(Seed())
			for i := 0; i < n; i++ {
				kind := "random"
				if i%10 == 7 {
					kind = "confusable"
				} else if i%3 == 0 {
					kind = "small-rate"
				}
				emit(kind, genLimCase(root.Fork(uint64(i)), kind))
			}
		}
		cw.Close()
		syscall.Exit(0) // ticker goroutines of the limiters never stop; leave the bubble by exiting
	})
}
