package verifharness

import (
	"bufio"
	"bytes"
	"encoding/json"
	"fmt"
	"io"
	"net"
	"net/http"
	"net/http/httptest"
	"strings"
	"testing"
	"time"
)

// ---- tunnel suite (C20 tunnelling half): an Upgrade session through the real binary with a plugin chain ----

type TuMsg struct {
	Dir int `json:"dir"` // 0 = client -> backend, 1 = backend -> client
	N   int `json:"n"`
}
type TuCase struct {
	Cfg     WiCfg   `json:"cfg"`
	Msgs    []TuMsg `json:"msgs"`
	Closer  int     `json:"closer"`            // 0 = client closes at the end, 1 = backend closes
	Idle    int     `json:"idle"`              // milliseconds of silence in the middle of the session
	Browser bool    `json:"browser,omitempty"` // the handshake carries what a browser sends along (Accept-Encoding, Origin, extensions, ...)
}

func tuBytes(seq, n int) []byte {
	b := make([]byte, n)
	for i := range b {
		b[i] = byte((seq*131 + i*7 + i/251) % 256) // binary payload incl. 0x00, CR, LF
	}
	return b
}

type tuBackend struct {
	c      TuCase
	recvOK []bool
	closed chan bool // the backend side saw EOF after a client close
	done   chan struct{}
}

func (tb *tuBackend) ServeHTTP(w http.ResponseWriter, r *http.Request) {
	if !strings.EqualFold(r.Header.Get("Upgrade"), "websocket") {
		w.WriteHeader(200)
		return
	}
	hj, ok := w.(http.Hijacker)
	if !ok {
		w.WriteHeader(500)
		return
	}
	conn, brw, err := hj.Hijack()
	if err != nil {
		return
	}
	defer conn.Close()
	defer close(tb.done)
	brw.WriteString("HTTP/1.1 101 Switching Protocols\r\nUpgrade: websocket\r\nConnection: Upgrade\r\n\r\n")
	brw.Flush()
	conn.SetDeadline(time.Now().Add(5 * time.Second))
	for i, m := range tb.c.Msgs {
		if i == len(tb.c.Msgs)/2 && tb.c.Idle > 0 {
			time.Sleep(time.Duration(tb.c.Idle) * time.Millisecond / 2)
		}
		if m.Dir == 0 {
			buf := make([]byte, m.N)
			_, err := io.ReadFull(brw, buf)
			tb.recvOK = append(tb.recvOK, err == nil && bytes.Equal(buf, tuBytes(i, m.N)))
		} else {
			conn.Write(tuBytes(i, m.N))
		}
	}
	if tb.c.Closer == 1 {
		return // deferred Close
	}
	// the client closes: this side must see EOF
	one := make([]byte, 1)
	_, err = brw.Read(one)
	tb.closed <- err != nil
}

func runTuGroup(cfg WiCfg, cases []TuCase, gidx int, emit func(c TuCase, coq string, stats map[string]int)) {
	cur := &tuBackend{}
	be := httptest.NewServer(http.HandlerFunc(func(w http.ResponseWriter, r *http.Request) { cur.ServeHTTP(w, r) }))
	defer be.Close()
	b, _ := Batch()
	hcfg := wiConfig(cfg, freePort(), []string{be.URL})
	hcfg.LoadBalancer.WebSocketPool.Enabled = gidx%2 == 0
	hcfg.LoadBalancer.WebSocketPool.MaxIdle, hcfg.LoadBalancer.WebSocketPool.MaxActive, hcfg.LoadBalancer.WebSocketPool.IdleTimeoutSeconds = 2, 10, 30
	hcfg.Server.Timeouts.BackendRead = 1 // a session outlives the backend response-header timeout
	hp, err := startHelios(hcfg, fmt.Sprintf("tunnel.%d.%d", b, gidx))
	if err != nil {
		panic(fmt.Sprintf("tunnel group %d: %v", gidx, err))
	}
	defer hp.stop()
	for _, c := range cases {
		stats := map[string]int{}
		*cur = tuBackend{c: c, closed: make(chan bool, 1), done: make(chan struct{})}
		conn, err := net.DialTimeout("tcp", fmt.Sprintf("127.0.0.1:%d", hp.port), 2*time.Second)
		if err != nil {
			panic(err)
		}
		conn.SetDeadline(time.Now().Add(6 * time.Second))
		connTok := "Upgrade"
		if c.Browser {
			// what browsers really send: a token list (Firefox: keep-alive, Upgrade)
			connTok = []string{"keep-alive, Upgrade", "Upgrade, keep-alive", "upgrade"}[len(c.Msgs)%3]
		}
		req := "GET /ws HTTP/1.1\r\nHost: tunnel.local\r\nUpgrade: websocket\r\nConnection: " + connTok + "\r\nSec-WebSocket-Key: dGhlIHNhbXBsZSBub25jZQ==\r\nSec-WebSocket-Version: 13\r\n"
		for _, p := range cfg.Chain {
			if p.Name == "custom-auth" {
				req += "X-API-Key: " + p.Key + "\r\n"
			}
		}
		if c.Browser {
			req += "Origin: http://tunnel.local\r\nUser-Agent: Mozilla/5.0\r\nAccept-Encoding: gzip, deflate, br\r\nAccept-Language: en\r\nSec-WebSocket-Extensions: permessage-deflate; client_max_window_bits\r\nCache-Control: no-cache\r\nPragma: no-cache\r\n"
		}
		conn.Write([]byte(req + "\r\n"))
		br := bufio.NewReader(conn)
		status := 0
		line, _ := br.ReadString('\n')
		fmt.Sscanf(line, "HTTP/1.1 %d", &status)
		for {
			l, err := br.ReadString('\n')
			if err != nil || strings.TrimRight(l, "\r\n") == "" {
				break
			}
		}
		var sentOK []bool
		upgraded := status == 101
		if upgraded {
			for i, m := range c.Msgs {
				if i == len(c.Msgs)/2 && c.Idle > 0 {
					time.Sleep(time.Duration(c.Idle) * time.Millisecond)
				}
				if m.Dir == 0 {
					conn.Write(tuBytes(i, m.N))
				} else {
					buf := make([]byte, m.N)
					_, err := io.ReadFull(br, buf)
					sentOK = append(sentOK, err == nil && bytes.Equal(buf, tuBytes(i, m.N)))
				}
			}
		}
		closeSeen := false
		if upgraded {
			if c.Closer == 0 {
				conn.Close()
				select {
				case closeSeen = <-cur.closed:
				case <-time.After(3 * time.Second):
				}
			} else {
				one := make([]byte, 1)
				_, err := br.Read(one)
				closeSeen = err != nil
			}
		}
		conn.Close()
		select {
		case <-cur.done:
		case <-time.After(3 * time.Second):
		}
		delivered := upgraded
		nb, nc := 0, 0
		for _, m := range c.Msgs {
			if m.Dir == 0 {
				nb++
			} else {
				nc++
			}
		}
		if len(cur.recvOK) != nb || len(sentOK) != nc {
			delivered = false
		}
		for _, ok := range append(cur.recvOK, sentOK...) {
			if !ok {
				delivered = false
			}
		}
		total := 0
		var msgs []string
		for _, m := range c.Msgs {
			msgs = append(msgs, fmt.Sprintf("(%d, %d)", m.Dir, m.N))
			total += m.N
		}
		var chain []string
		for _, p := range cfg.Chain {
			chain = append(chain, coqPlug(p))
		}
		stats[fmt.Sprintf("status_%d", status)]++
		stats["bytes"] += total
		coq := fmt.Sprintf("mkTuCase %s %s %d %d %s %s %s", List(chain), List(msgs), c.Closer, c.Idle, B(upgraded), B(delivered), B(closeSeen))
		emit(c, coq, stats)
	}
}

func genTuCase(g *Rng, cfg WiCfg) TuCase {
	c := TuCase{Cfg: cfg, Closer: g.Intn(2), Browser: g.Chance(50)}
	n := g.Range(0, 8)
	for i := 0; i < n; i++ {
		c.Msgs = append(c.Msgs, TuMsg{Dir: g.Intn(2), N: []int{1, 2, 125, 126, 1000, 4096, 65536, 100000}[g.Intn(8)]})
	}
	if g.Chance(20) {
		c.Idle = 1300 // longer than the configured backend_read timeout (1 s)
	}
	return c
}

func TestTunnel(t *testing.T) {
	cw := NewCaseWriter("tunnel")
	idx := 0
	put := func(kind string) func(c TuCase, coq string, stats map[string]int) {
		return func(c TuCase, coq string, stats map[string]int) {
			repl, _ := json.Marshal(c)
			cw.Put(Case{Idx: idx, Kind: kind, Coq: coq, Repl: repl, Stats: stats})
			idx++
		}
	}
	if rp := ReplayCases(); rp != nil {
		for gi, raw := range rp {
			var c TuCase
			if err := json.Unmarshal(raw, &c); err != nil {
				panic(err)
			}
			runTuGroup(c.Cfg, []TuCase{c}, gi, put("replay"))
		}
		cw.Close()
		return
	}
	ngroups, per := 12, 6
	if Tier() == "thorough" {
		ngroups, per = 120, 20
	}
	root := NewRng(Seed() + 2121)
	for j := 0; j < ngroups; j++ {
		if Mine(j) {
			g := root.Fork(uint64(j))
			cfg := genWiCfg(g)
			cfg.Limit, cfg.Passive, cfg.NBack = false, false, 1
			if len(cfg.Chain) > 3 {
				cfg.Chain = cfg.Chain[:3]
			}
			if j%4 == 1 && !hasPlug(cfg, "gzip") { // every response-wrapping plugin takes part in some group
				cfg.Chain = append(cfg.Chain, WiPlug{Name: "gzip"})
			}
			if j%4 == 3 && !hasPlug(cfg, "size_limit") {
				// limits far below what the session carries: a tunnel is not a response body
				cfg.Chain = append([]WiPlug{{Name: "size_limit", MaxReq: 64, MaxResp: 60000}}, cfg.Chain...)
			}
			var cases []TuCase
			if hasPlug(cfg, "size_limit") {
				cases = append(cases, TuCase{Cfg: cfg, Msgs: []TuMsg{{Dir: 1, N: 100000}, {Dir: 0, N: 100000}, {Dir: 1, N: 100000}, {Dir: 0, N: 7}, {Dir: 1, N: 5}}, Closer: j % 2})
			}
			for k := 0; k < per; k++ {
				cases = append(cases, genTuCase(g.Fork(uint64(100+k)), cfg))
			}
			idx = j * 1000
			runTuGroup(cfg, cases, j, put("random"))
		}
	}
	cw.Close()
}
