package verifharness

import (
	"context"
	"encoding/json"
	"fmt"
	"net"
	"net/http"
	"sort"
	"strings"
	"syscall"
	"testing"
	"testing/synctest"
	"time"

	"github.com/0xReLogic/Helios/internal/config"
	lbp "github.com/0xReLogic/Helios/internal/loadbalancer"
)

// ---- lbseq suite: the real LoadBalancer under virtual time, scripted in-memory backends ----

type LbOp struct {
	K      string `json:"k"` // begin end adv add rm strat list metrics drain
	Rid    int    `json:"rid,omitempty"`
	XFF    string `json:"xff,omitempty"`
	XRI    string `json:"xri,omitempty"`
	Remote string `json:"remote,omitempty"`
	Code   int    `json:"code,omitempty"` // end: status; 0 = transport error (502); -1 = abort mid-body; -3 = the client goes away while the backend is working
	D      int64  `json:"d,omitempty"`
	Name   int    `json:"name,omitempty"`
	W      int    `json:"w,omitempty"`
	Addr   string `json:"addr,omitempty"`
	S      string `json:"s,omitempty"`    // strategy name
	Upg    bool   `json:"upg,omitempty"`  // begin: the request asks for a protocol upgrade (Connection: Upgrade, Upgrade: websocket); the gates and the accounting must not depend on it
	Meth   string `json:"meth,omitempty"` // begin: request method (GET when empty); the accounting must not depend on it
	Pre    bool   `json:"pre,omitempty"`  // begin: the client is already gone when the request reaches the balancer (context cancelled)
}
type LbCase struct {
	Strategy                                string
	Backends                                []int // weights of configured backends n1..nk
	Passive                                 bool
	PThr, PTimeout                          int
	Lim                                     bool
	LMax, LRate                             int
	Brk                                     bool
	BMax, BInterval, BTimeout, BFthr, BSthr int
	Ops                                     []LbOp
	Gen                                     bool   `json:"gen,omitempty"`
	Seed                                    uint64 `json:"seed,omitempty"`
}

var strategyNames = []string{"round_robin", "least_connections", "weighted_round_robin", "ip_hash", "ip_hash_consistent"}

func strategyCode(s string) int {
	for i, n := range strategyNames {
		if n == s {
			return i
		}
	}
	return 9
}

type lbRunner struct {
	c        *LbCase
	lb       *lbp.LoadBalancer
	calls    chan *rtCall
	seenB    map[*lbp.Backend]bool
	idOf     map[*lbp.Backend]int
	nextID   int
	pending  map[int]*rtCall
	done     map[int]chan serveResult
	cancel   map[int]context.CancelFunc
	order    []int
	tab      strTab
	ops, obs []string
	stats    map[string]int
	t0, now  int64
	nextRid  int
}

func (r *lbRunner) registerBackends() {
	for _, b := range r.lb.VerifBackends() {
		if _, ok := r.idOf[b]; !ok {
			r.idOf[b] = r.nextID
			r.nextID++
		}
	}
	installTransports(r.lb, r.calls, r.seenB)
}

func nameID(name string) int {
	var n int
	fmt.Sscanf(name, "n%d", &n)
	if strings.HasSuffix(name, " ") { // a name that differs from n<k> by a trailing blank is another name: 5000 + k
		n += 5000
	}
	return n
}

func lbName(id int) string {
	if id >= 5000 {
		return fmt.Sprintf("n%d ", id-5000)
	}
	return fmt.Sprintf("n%d", id)
}

func (r *lbRunner) emit(op string, ob string) {
	r.ops = append(r.ops, op)
	r.obs = append(r.obs, ob)
}

func (r *lbRunner) begin(op LbOp) {
	meth := op.Meth
	if meth == "" {
		meth = "GET"
	}
	req, _ := http.NewRequest(meth, "http://lb.local/x", nil)
	if op.XFF != "" {
		req.Header.Set("X-Forwarded-For", op.XFF)
	}
	if op.XRI != "" {
		req.Header.Set("X-Real-IP", op.XRI)
	}
	if op.Upg {
		req.Header.Set("Connection", "Upgrade")
		req.Header.Set("Upgrade", "websocket")
	}
	req.RemoteAddr = op.Remote
	ctx, cancel := context.WithCancel(context.Background())
	req = req.WithContext(ctx)
	if r.cancel == nil {
		r.cancel = map[int]context.CancelFunc{}
	}
	r.cancel[op.Rid] = cancel
	if op.Pre {
		cancel()
	}
	host := op.Remote
	if h, _, err := net.SplitHostPort(op.Remote); err == nil {
		host = h
	}
	done := serveAsync(r.lb, req)
	synctest.Wait()
	coqop := fmt.Sprintf("CBegin %d %d %d %d", op.Rid, r.tab.get(op.XFF), r.tab.get(op.XRI), r.tab.get(host))
	select {
	case c := <-r.calls:
		r.emit(coqop, fmt.Sprintf("[0; %d]", r.idOf[c.backend]))
		r.stats["dispatched"]++
		if op.Pre {
			// the transport gives up at once with context.Canceled: the exchange is over, a failed request on that backend
			synctest.Wait()
			res := <-done
			r.emit(fmt.Sprintf("CEnd %d 502", op.Rid), fmt.Sprintf("[%s]", ZI(res.status)))
			r.stats["end_precancelled"]++
			return
		}
		r.pending[op.Rid] = c
		r.done[op.Rid] = done
		r.order = append(r.order, op.Rid)
	default:
		res := <-done
		reason := 0
		switch {
		case res.status == 429 && strings.HasPrefix(res.body, "Rate limit exceeded"):
			reason = 1
		case res.status == 503 && strings.Contains(res.body, "circuit breaker is open"):
			reason = 2
		case res.status == 429 && strings.Contains(res.body, "circuit breaker half-open"):
			reason = 3
		case res.status == 503 && strings.HasPrefix(res.body, "No healthy backend"):
			reason = 4
		default:
			reason = 1000 + res.status
		}
		r.emit(coqop, fmt.Sprintf("[1; %d]", reason))
		r.stats[fmt.Sprintf("rejected_%d", reason)]++
	}
}

func (r *lbRunner) end(rid, code int) {
	c, ok := r.pending[rid]
	if !ok {
		return
	}
	delete(r.pending, rid)
	for i, x := range r.order {
		if x == rid {
			r.order = append(r.order[:i], r.order[i+1:]...)
			break
		}
	}
	modelCode := code
	switch {
	case code == -1:
		c.release <- rtOutcome{kind: "abort"}
	case code == 0:
		c.release <- rtOutcome{kind: "err"}
		modelCode = 502
	case code == -3:
		// the client's connection is gone: the server cancels the request context; the transport gives up with
		// context.Canceled and the proxy answers 502 into the void - for the accounting a failed request on that backend
		r.cancel[rid]()
		modelCode = 502
	case code >= 10000:
		// 103 Early Hints, then the final status code - 10000
		c.release <- rtOutcome{kind: "status", status: code - 10000, interim: true}
		modelCode = code - 10000
	default:
		c.release <- rtOutcome{kind: "status", status: code}
	}
	res := <-r.done[rid]
	delete(r.done, rid)
	synctest.Wait()
	r.emit(fmt.Sprintf("CEnd %d %s", rid, ZI(modelCode)), fmt.Sprintf("[%s]", ZI(res.status)))
	r.stats[fmt.Sprintf("end_%d", code)]++
}

func (r *lbRunner) advance(d int64) {
	time.Sleep(time.Duration(d))
	synctest.Wait()
	end := r.now + d
	if r.c.Lim {
		for {
			next := r.t0 + ((r.now-r.t0)/limCleanupTick+1)*limCleanupTick
			if next > end {
				break
			}
			r.emit("CAdv "+Z(next-r.now), "[]")
			r.emit("CCleanup", "[]")
			r.now = next
		}
	}
	if end > r.now {
		r.emit("CAdv "+Z(end-r.now), "[]")
	}
	r.now = end
	r.stats["advance"]++
}

func (r *lbRunner) list() {
	var items []string
	for _, b := range r.lb.ListBackends() {
		items = append(items, ZI(nameID(b.Name)), B01(b.Healthy), ZI(int(b.ActiveConnections)), ZI(b.Weight))
	}
	r.emit("CList", List(items))
}

func (r *lbRunner) metrics() {
	m := r.lb.GetMetricsCollector().GetMetrics()
	var names []int
	for n := range m.BackendMetrics {
		names = append(names, nameID(n))
	}
	sort.Ints(names)
	items := []string{fmt.Sprint(m.TotalRequests), fmt.Sprint(m.SuccessfulRequests), fmt.Sprint(m.FailedRequests), fmt.Sprint(m.RateLimitedRequests), fmt.Sprint(len(names))}
	for _, n := range names {
		bm := m.BackendMetrics[lbName(n)]
		items = append(items, fmt.Sprint(bm.TotalRequests), fmt.Sprint(bm.SuccessfulRequests), fmt.Sprint(bm.FailedRequests), ZI(int(bm.ActiveConnections)), B01(bm.IsHealthy))
	}
	r.emit("CMetrics "+IList(names), List(items))
	r.stats["metrics"]++
	if len(r.order) == 0 {
		r.stats["metrics_quiescent"]++
	}
}

func (r *lbRunner) apply(op LbOp) {
	switch op.K {
	case "begin":
		r.begin(op)
	case "end":
		r.end(op.Rid, op.Code)
	case "adv":
		r.advance(op.D)
	case "add":
		r.list()
		err := r.lb.AddBackend(config.BackendConfig{Name: lbName(op.Name), Address: op.Addr, Weight: op.W})
		_, perr := urlParseOK(op.Addr)
		r.registerBackends()
		r.emit(fmt.Sprintf("CAdd %d %s %s", op.Name, ZI(op.W), B(perr)), fmt.Sprintf("[%s]", B01(err != nil)))
		r.stats["add"]++
		r.list()
	case "rm":
		r.list()
		r.lb.RemoveBackend(lbName(op.Name))
		r.emit(fmt.Sprintf("CRemove %d", op.Name), "[0]")
		r.stats["remove"]++
		r.list()
	case "strat":
		r.list()
		err := r.lb.SetStrategy(op.S)
		r.emit(fmt.Sprintf("CStrategy %d", strategyCode(op.S)), fmt.Sprintf("[%s]", B01(err != nil)))
		r.stats["strategy"]++
		r.list()
	case "list":
		r.list()
	case "metrics":
		r.metrics()
	case "drain":
		for len(r.order) > 0 {
			r.end(r.order[0], 200)
		}
	}
}

func runLbCase(c *LbCase) (string, map[string]int) {
	r := &lbRunner{c: c, calls: make(chan *rtCall, 256), seenB: map[*lbp.Backend]bool{}, idOf: map[*lbp.Backend]int{}, nextID: 1,
		pending: map[int]*rtCall{}, done: map[int]chan serveResult{}, stats: map[string]int{}, nextRid: 1}
	cfg := &config.Config{Server: config.ServerConfig{Port: 8080}, LoadBalancer: config.LoadBalancerConfig{Strategy: c.Strategy}}
	for i, w := range c.Backends {
		cfg.Backends = append(cfg.Backends, config.BackendConfig{Name: fmt.Sprintf("n%d", i+1), Address: fmt.Sprintf("http://b%d.invalid:80", i+1), Weight: w})
	}
	cfg.HealthChecks.Passive = config.PassiveHealthCheckConfig{Enabled: c.Passive, UnhealthyThreshold: c.PThr, UnhealthyTimeout: c.PTimeout}
	cfg.RateLimit = config.RateLimitConfig{Enabled: c.Lim, MaxTokens: c.LMax, RefillRate: c.LRate}
	cfg.CircuitBreaker = config.CircuitBreakerConfig{Enabled: c.Brk, MaxRequests: c.BMax, IntervalSeconds: c.BInterval, TimeoutSeconds: c.BTimeout, FailureThreshold: c.BFthr, SuccessThreshold: c.BSthr}
	lb, err := lbp.NewLoadBalancer(cfg)
	if err != nil {
		panic(err)
	}
	r.lb = lb
	synctest.Wait()
	r.t0 = time.Now().UnixNano()
	r.now = r.t0
	// configured backends are adds that happened before the trace starts: render them as CAdd ops
	for i, w := range c.Backends {
		r.emit(fmt.Sprintf("CAdd %d %s true", i+1, ZI(w)), "[0]")
	}
	r.registerBackends()
	sec := int64(time.Second)
	if c.Gen {
		g := NewRng(c.Seed)
		c.Ops = nil
		n := g.Range(10, 70)
		clients := []LbOp{{XFF: "10.0.0.1"}, {XFF: "10.0.0.2"}, {XFF: "10.0.0.2, 10.9.9.9"}, {XFF: " 10.0.0.1 "}, {XRI: "10.0.0.3"}, {Remote: "10.0.0.4:5555"},
			{Remote: "10.0.0.4:6666"}, {Remote: "[2001:db8::1]:443"}, {XFF: "2001:db8::1"}, {XFF: "2001:db8::2"}, {XFF: ",10.0.0.7"}, {XFF: "10.0.0.5 "}}
		gaps := []int64{0, 1, sec, int64(c.PTimeout) * sec, int64(c.PTimeout)*sec + 1, int64(c.PTimeout)*sec - 1, int64(c.LRate) * sec, int64(c.LRate)*sec - 1,
			int64(c.BTimeout) * sec, int64(c.BTimeout)*sec + 1, int64(c.BInterval) * sec, int64(c.BInterval)*sec + 1, 3 * sec}
		failBias := g.Range(10, 70)
		nextName := len(c.Backends) + 1
		for i := 0; i < n; i++ {
			var op LbOp
			switch x := g.Intn(100); {
			case x < 38:
				cl := clients[g.Intn(len(clients))]
				op = LbOp{K: "begin", Rid: r.nextRid, XFF: cl.XFF, XRI: cl.XRI, Remote: cl.Remote, Pre: g.Chance(6)}
				if g.Chance(25) {
					op.Meth = g.PickS([]string{"POST", "PUT", "DELETE", "HEAD", "OPTIONS", "PATCH", "TRACE"})
				}
				op.Upg = g.Chance(12)
				if op.Remote == "" {
					op.Remote = fmt.Sprintf("192.0.2.%d:%d", g.Range(1, 3), g.Range(1024, 60000))
				}
				r.nextRid++
			case x < 66 && len(r.order) > 0:
				code := 200
				if g.Chance(failBias) {
					code = []int{500, 503, 502, 0, 0, -1, 404, 500, -3, 10500, 10503}[g.Intn(11)]
				} else if g.Chance(20) {
					code = []int{201, 204, 301, 404, 499, 10200}[g.Intn(6)]
				}
				op = LbOp{K: "end", Rid: r.order[g.Intn(len(r.order))], Code: code}
			case x < 80:
				d := g.PickI64(gaps)
				if d < 0 {
					d = 0
				}
				op = LbOp{K: "adv", D: d}
			case x < 84:
				op = LbOp{K: "list"}
			case x < 90:
				if g.Chance(60) {
					r.applyRec(c, LbOp{K: "drain"})
				}
				op = LbOp{K: "metrics"}
			case x < 94:
				name := nextName
				if g.Chance(30) {
					name = g.Range(1, nextName) // possibly an existing name
				} else {
					nextName++
				}
				addr := fmt.Sprintf("http://b%d.invalid:80", name)
				if g.Chance(15) {
					addr = g.PickS([]string{"http://[::1", "http://a b.invalid", ":", "http://ok.invalid/%zz"})
				}
				op = LbOp{K: "add", Name: name, W: g.Range(0, 4), Addr: addr}
			case x < 97:
				op = LbOp{K: "rm", Name: g.Range(1, nextName)}
			default:
				s := strategyNames[g.Intn(5)]
				if g.Chance(15) {
					s = g.PickS([]string{"", "random", "ROUND_ROBIN"})
				}
				op = LbOp{K: "strat", S: s}
			}
			if op.K != "" {
				r.applyRec(c, op)
			}
		}
		c.Gen = false
	} else {
		for _, op := range c.Ops {
			r.apply(op)
			if op.K == "begin" && op.Rid >= r.nextRid {
				r.nextRid = op.Rid + 1
			}
		}
	}
	// ---- recovery script (C03): end everything in flight, wait past every timer, make sure a healthy
	// backend exists, then three well-behaved requests from fresh clients, then metrics
	recFrom := len(r.ops)
	for len(r.order) > 0 {
		r.end(r.order[0], 200)
	}
	w := int64(1)
	for _, x := range []int{c.PTimeout, c.BTimeout, c.LRate, c.BInterval} {
		if int64(x) > w {
			w = int64(x)
		}
	}
	r.advance(w*sec + 1)
	r.apply(LbOp{K: "add", Name: 99, W: 1, Addr: "http://b99.invalid:80"})
	for i := 0; i < 3; i++ {
		rid := 900000 + i
		r.begin(LbOp{K: "begin", Rid: rid, XFF: fmt.Sprintf("198.51.100.%d", i+1), Remote: "198.51.100.200:1"})
		r.end(rid, 200)
	}
	r.metrics()
	cs := func(b bool) string { return B(b) }
	effMax := c.BMax
	if effMax == 0 { // setupCircuitBreaker: max_requests defaults to success_threshold
		effMax = c.BSthr
		if effMax == 0 {
			effMax = 1
		}
	}
	coq := fmt.Sprintf("mkLbCase %d %s %d %s %s %s %d %s %s %d %s %s %d %d %s %s %s %s %d",
		strategyCode(c.Strategy), cs(c.Passive), c.PThr, Z(int64(c.PTimeout)*sec), cs(false),
		cs(c.Lim), c.LMax, Z(int64(c.LRate)*sec),
		cs(c.Brk), effMax, Z(int64(c.BInterval)*sec), Z(int64(c.BTimeout)*sec), c.BFthr, c.BSthr,
		Z(r.t0), List(r.tab.items), List(r.ops), List(r.obs), recFrom)
	return coq, r.stats
}

func (r *lbRunner) applyRec(c *LbCase, op LbOp) {
	c.Ops = append(c.Ops, op)
	r.apply(op)
}

func lbCorpus() []LbCase {
	sec := int64(time.Second)
	xs := func(n int, op LbOp) []LbOp { return repLb(op, n) }
	_ = xs
	var out []LbCase
	// C13: no-backend path and abort path
	out = append(out, LbCase{Strategy: "round_robin", Backends: []int{1}, Passive: true, PThr: 1, PTimeout: 30, Ops: []LbOp{
		{K: "begin", Rid: 1, Remote: "10.0.0.1:1"}, {K: "end", Rid: 1, Code: 500}, {K: "begin", Rid: 2, Remote: "10.0.0.1:1"}, {K: "metrics"},
		{K: "adv", D: 31 * sec}, {K: "begin", Rid: 3, Remote: "10.0.0.1:1"}, {K: "end", Rid: 3, Code: -1}, {K: "begin", Rid: 4, Remote: "10.0.0.1:1"}, {K: "end", Rid: 4, Code: -1}, {K: "metrics"}, {K: "list"}}})
	// C13 known finding gauge-stale-after-readd-while-draining: requests in flight on n1 and n2, n1 removed and added again under
	// its name, requests to both, the requests on the removed object end: the published gauge of n1 drops to 0 with one in flight
	out = append(out, LbCase{Strategy: "round_robin", Backends: []int{1, 1}, Ops: []LbOp{
		{K: "begin", Rid: 1, Remote: "10.0.0.1:1"}, {K: "begin", Rid: 2, Remote: "10.0.0.1:1"}, {K: "rm", Name: 1}, {K: "add", Name: 1, W: 1, Addr: "http://b1b.invalid:80"},
		{K: "begin", Rid: 3, Remote: "10.0.0.1:1"}, {K: "begin", Rid: 4, Remote: "10.0.0.1:1"}, {K: "end", Rid: 1, Code: 200}, {K: "end", Rid: 2, Code: 200},
		{K: "metrics"}, {K: "list"}, {K: "drain"}, {K: "metrics"}}})
	// C13: every method is counted (TRACE, OPTIONS, HEAD included)
	{
		var ops []LbOp
		for i, m := range []string{"GET", "POST", "PUT", "DELETE", "HEAD", "OPTIONS", "PATCH", "TRACE"} {
			ops = append(ops, LbOp{K: "begin", Rid: i + 1, Remote: "10.0.0.1:1", Meth: m}, LbOp{K: "end", Rid: i + 1, Code: 200})
		}
		ops = append(ops, LbOp{K: "metrics"})
		out = append(out, LbCase{Strategy: "round_robin", Backends: []int{1, 1}, Ops: ops})
	}
	// C04: the health mirror of the metrics still follows the flag after the process has seen more than a thousand backend names
	{
		var ops []LbOp
		for i := 0; i < 1001; i++ {
			ops = append(ops, LbOp{K: "add", Name: 100 + i, W: 1, Addr: fmt.Sprintf("http://c%d.invalid:80", i)}, LbOp{K: "rm", Name: 100 + i})
		}
		ops = append(ops, LbOp{K: "begin", Rid: 1, Remote: "10.0.0.1:1"}, LbOp{K: "end", Rid: 1, Code: 500}, LbOp{K: "metrics"}, LbOp{K: "list"},
			LbOp{K: "begin", Rid: 2, Remote: "10.0.0.1:1"}, LbOp{K: "end", Rid: 2, Code: 200}, LbOp{K: "metrics"})
		out = append(out, LbCase{Strategy: "round_robin", Backends: []int{1, 1}, Passive: true, PThr: 1, PTimeout: 30, Ops: ops})
	}
	// C13: a name that differs from another by a trailing blank is another backend with totals of its own
	out = append(out, LbCase{Strategy: "round_robin", Backends: []int{1, 1}, Ops: []LbOp{
		{K: "add", Name: 5001, W: 1, Addr: "http://b1pad.invalid:80"}, {K: "list"},
		{K: "begin", Rid: 1, Remote: "10.0.0.1:1"}, {K: "end", Rid: 1, Code: 200}, {K: "begin", Rid: 2, Remote: "10.0.0.1:1"}, {K: "end", Rid: 2, Code: 200},
		{K: "begin", Rid: 3, Remote: "10.0.0.1:1"}, {K: "end", Rid: 3, Code: 500}, {K: "begin", Rid: 4, Remote: "10.0.0.1:1"}, {K: "end", Rid: 4, Code: 200},
		{K: "begin", Rid: 5, Remote: "10.0.0.1:1"}, {K: "end", Rid: 5, Code: 200}, {K: "begin", Rid: 6, Remote: "10.0.0.1:1"}, {K: "metrics"}, {K: "end", Rid: 6, Code: 200},
		{K: "metrics"}, {K: "rm", Name: 5001}, {K: "list"}, {K: "metrics"}}})
	// C09 / C07: a client address of blanks only has a bucket like any other; upgrade requests pass the gates like any other
	out = append(out, LbCase{Strategy: "round_robin", Backends: []int{1}, Lim: true, LMax: 2, LRate: 3600, Ops: []LbOp{
		{K: "begin", Rid: 1, XFF: "\u00a0, 203.0.113.9", Remote: "10.0.0.1:1"}, {K: "end", Rid: 1, Code: 200}, {K: "begin", Rid: 2, XFF: "\u00a0, 203.0.113.9", Remote: "10.0.0.1:1"}, {K: "end", Rid: 2, Code: 200},
		{K: "begin", Rid: 3, XFF: "\u00a0, 203.0.113.9", Remote: "10.0.0.1:1"}, {K: "begin", Rid: 4, XFF: "\u00a0", Remote: "10.0.0.1:1"}, {K: "metrics"}}})
	out = append(out, LbCase{Strategy: "round_robin", Backends: []int{1, 1}, Brk: true, BMax: 1, BInterval: 60, BTimeout: 60, BFthr: 2, BSthr: 1, Ops: []LbOp{
		{K: "begin", Rid: 1, Remote: "10.0.0.1:1", Upg: true}, {K: "end", Rid: 1, Code: 500}, {K: "begin", Rid: 2, Remote: "10.0.0.1:1", Upg: true}, {K: "end", Rid: 2, Code: 500},
		{K: "begin", Rid: 3, Remote: "10.0.0.1:1", Upg: true}, {K: "adv", D: 61 * sec}, {K: "begin", Rid: 4, Remote: "10.0.0.1:1"}, {K: "begin", Rid: 5, Remote: "10.0.0.1:1", Upg: true},
		{K: "end", Rid: 4, Code: 500}, {K: "begin", Rid: 6, Remote: "10.0.0.1:1", Upg: true}, {K: "metrics"}}})
	// C11: a strategy switch on an emptied pool takes effect for the backends added afterwards
	out = append(out, LbCase{Strategy: "round_robin", Backends: []int{1}, Ops: []LbOp{
		{K: "rm", Name: 1}, {K: "strat", S: "weighted_round_robin"}, {K: "add", Name: 7, W: 3, Addr: "http://b7.invalid:80"}, {K: "add", Name: 8, W: 1, Addr: "http://b8.invalid:80"},
		{K: "begin", Rid: 1, Remote: "10.0.0.1:1"}, {K: "end", Rid: 1, Code: 200}, {K: "begin", Rid: 2, Remote: "10.0.0.1:1"}, {K: "end", Rid: 2, Code: 200},
		{K: "begin", Rid: 3, Remote: "10.0.0.1:1"}, {K: "end", Rid: 3, Code: 200}, {K: "begin", Rid: 4, Remote: "10.0.0.1:1"}, {K: "end", Rid: 4, Code: 200},
		{K: "begin", Rid: 5, Remote: "10.0.0.1:1"}, {K: "end", Rid: 5, Code: 200}, {K: "begin", Rid: 6, Remote: "10.0.0.1:1"}, {K: "end", Rid: 6, Code: 200},
		{K: "begin", Rid: 7, Remote: "10.0.0.1:1"}, {K: "end", Rid: 7, Code: 200}, {K: "begin", Rid: 8, Remote: "10.0.0.1:1"}, {K: "end", Rid: 8, Code: 200}, {K: "list"}}})
	out = append(out, LbCase{Strategy: "weighted_round_robin", Backends: []int{1}, Ops: []LbOp{
		{K: "rm", Name: 1}, {K: "strat", S: "ip_hash"}, {K: "add", Name: 7, W: 1, Addr: "http://b7.invalid:80"}, {K: "add", Name: 8, W: 1, Addr: "http://b8.invalid:80"}, {K: "add", Name: 9, W: 1, Addr: "http://b9.invalid:80"},
		{K: "begin", Rid: 1, XFF: "10.0.0.1", Remote: "10.0.0.9:1"}, {K: "end", Rid: 1, Code: 200}, {K: "begin", Rid: 2, XFF: "10.0.0.1", Remote: "10.0.0.9:1"}, {K: "end", Rid: 2, Code: 200},
		{K: "begin", Rid: 3, XFF: "10.0.0.1", Remote: "10.0.0.9:1"}, {K: "end", Rid: 3, Code: 200}, {K: "begin", Rid: 4, XFF: "10.0.0.2", Remote: "10.0.0.9:1"}, {K: "end", Rid: 4, Code: 200}}})
	// C05 / C13: least_connections after an ejection that straddles requests in flight: the gauge of the recovered backend still counts them
	out = append(out, LbCase{Strategy: "least_connections", Backends: []int{1, 1}, Passive: true, PThr: 1, PTimeout: 5, Ops: []LbOp{
		{K: "begin", Rid: 1, Remote: "10.0.0.1:1"}, {K: "begin", Rid: 2, Remote: "10.0.0.1:1"}, {K: "begin", Rid: 3, Remote: "10.0.0.1:1"}, {K: "begin", Rid: 4, Remote: "10.0.0.1:1"},
		{K: "begin", Rid: 5, Remote: "10.0.0.1:1"}, {K: "end", Rid: 1, Code: 500}, {K: "list"}, {K: "adv", D: 6 * sec}, {K: "end", Rid: 2, Code: 200},
		{K: "begin", Rid: 6, Remote: "10.0.0.1:1"}, {K: "list"}, {K: "begin", Rid: 7, Remote: "10.0.0.1:1"}, {K: "list"}, {K: "metrics"}, {K: "drain"}, {K: "list"}, {K: "metrics"}}})
	// C07 at balancer level: threshold 2, five 500s
	out = append(out, LbCase{Strategy: "round_robin", Backends: []int{1, 1}, Brk: true, BMax: 1, BInterval: 60, BTimeout: 60, BFthr: 2, BSthr: 1, Ops: []LbOp{
		{K: "begin", Rid: 1, Remote: "10.0.0.1:1"}, {K: "end", Rid: 1, Code: 500}, {K: "begin", Rid: 2, Remote: "10.0.0.1:1"}, {K: "end", Rid: 2, Code: 500},
		{K: "begin", Rid: 3, Remote: "10.0.0.1:1"}, {K: "end", Rid: 3, Code: 500}, {K: "begin", Rid: 4, Remote: "10.0.0.1:1"}, {K: "end", Rid: 4, Code: 0}, {K: "begin", Rid: 5, Remote: "10.0.0.1:1"}, {K: "end", Rid: 5, Code: 200}}})
	// C08: thresholds beyond 32 bits are accepted by the validator: the breaker must still be able to close
	out = append(out, LbCase{Strategy: "round_robin", Backends: []int{1}, Brk: true, BMax: 4294967297, BInterval: 60, BTimeout: 60, BFthr: 1, BSthr: 3, Ops: []LbOp{
		{K: "begin", Rid: 1, Remote: "10.0.0.1:1"}, {K: "end", Rid: 1, Code: 500}, {K: "adv", D: 61 * sec},
		{K: "begin", Rid: 2, Remote: "10.0.0.1:1"}, {K: "end", Rid: 2, Code: 200}, {K: "begin", Rid: 3, Remote: "10.0.0.1:1"}, {K: "end", Rid: 3, Code: 200},
		{K: "begin", Rid: 4, Remote: "10.0.0.1:1"}, {K: "end", Rid: 4, Code: 200}, {K: "begin", Rid: 5, Remote: "10.0.0.1:1"}, {K: "end", Rid: 5, Code: 200}}})
	out = append(out, LbCase{Strategy: "round_robin", Backends: []int{1}, Brk: true, BMax: 4294967298, BInterval: 60, BTimeout: 60, BFthr: 4294967297, BSthr: 2, Ops: []LbOp{
		{K: "begin", Rid: 1, Remote: "10.0.0.1:1"}, {K: "end", Rid: 1, Code: 500}, {K: "begin", Rid: 2, Remote: "10.0.0.1:1"}, {K: "end", Rid: 2, Code: 500},
		{K: "begin", Rid: 3, Remote: "10.0.0.1:1"}, {K: "end", Rid: 3, Code: 200}}})
	// C02: least connections, idle ejected backend shadows a busy healthy one
	out = append(out, LbCase{Strategy: "least_connections", Backends: []int{1, 1}, Passive: true, PThr: 1, PTimeout: 30, Ops: []LbOp{
		{K: "begin", Rid: 1, Remote: "10.0.0.1:1"}, {K: "end", Rid: 1, Code: 500}, {K: "begin", Rid: 2, Remote: "10.0.0.1:1"}, {K: "begin", Rid: 3, Remote: "10.0.0.1:1"}, {K: "list"}}})
	// C02: round robin, three adjacent ejected of four
	out = append(out, LbCase{Strategy: "round_robin", Backends: []int{1, 1, 1, 1}, Passive: true, PThr: 1, PTimeout: 30, Ops: []LbOp{
		{K: "begin", Rid: 1, Remote: "10.0.0.1:1"}, {K: "end", Rid: 1, Code: 500}, {K: "begin", Rid: 2, Remote: "10.0.0.1:1"}, {K: "end", Rid: 2, Code: 500},
		{K: "begin", Rid: 3, Remote: "10.0.0.1:1"}, {K: "end", Rid: 3, Code: 500}, {K: "begin", Rid: 4, Remote: "10.0.0.1:1"}, {K: "end", Rid: 4, Code: 200},
		{K: "begin", Rid: 5, Remote: "10.0.0.1:1"}, {K: "list"}}})
	// C04: weighted / hash strategies never re-admit after the window without probes
	for _, s := range []string{"weighted_round_robin", "ip_hash", "ip_hash_consistent", "round_robin", "least_connections"} {
		out = append(out, LbCase{Strategy: s, Backends: []int{1}, Passive: true, PThr: 2, PTimeout: 5, Ops: []LbOp{
			{K: "begin", Rid: 1, Remote: "10.0.0.1:1"}, {K: "end", Rid: 1, Code: 500}, {K: "begin", Rid: 2, Remote: "10.0.0.1:1"}, {K: "end", Rid: 2, Code: 502},
			{K: "begin", Rid: 3, Remote: "10.0.0.1:1"}, {K: "adv", D: 5 * sec}, {K: "begin", Rid: 4, Remote: "10.0.0.1:1"}, {K: "adv", D: 1}, {K: "begin", Rid: 5, Remote: "10.0.0.1:1"}, {K: "list"}, {K: "metrics"}}})
	}
	// C11: duplicate names
	out = append(out, LbCase{Strategy: "round_robin", Backends: []int{1}, Ops: []LbOp{
		{K: "list"}, {K: "add", Name: 5, W: 0, Addr: "http://b5.invalid:80"}, {K: "add", Name: 5, W: 2, Addr: "http://b5b.invalid:80"}, {K: "rm", Name: 5}, {K: "rm", Name: 7},
		{K: "add", Name: 6, W: 1, Addr: "http://[::1"}, {K: "strat", S: "weighted_round_robin"}, {K: "strat", S: "bogus"}}})
	// C09 gate: isolation between forwarded IPv6 clients
	out = append(out, LbCase{Strategy: "round_robin", Backends: []int{1}, Lim: true, LMax: 1, LRate: 60, Ops: []LbOp{
		{K: "begin", Rid: 1, XFF: "2001:db8::1", Remote: "10.0.0.1:1"}, {K: "end", Rid: 1, Code: 200}, {K: "begin", Rid: 2, XFF: "2001:db8::1", Remote: "10.0.0.1:1"},
		{K: "begin", Rid: 3, XFF: "2001:db8::2", Remote: "10.0.0.1:1"}, {K: "end", Rid: 3, Code: 200}, {K: "begin", Rid: 4, XFF: "10.1.1.1:80", Remote: "10.0.0.1:1"}, {K: "end", Rid: 4, Code: 200},
		{K: "begin", Rid: 5, XFF: "10.1.1.1:81", Remote: "10.0.0.1:1"}, {K: "end", Rid: 5, Code: 200}}})
	return out
}

func repLb(op LbOp, n int) []LbOp {
	out := make([]LbOp, n)
	for i := range out {
		out[i] = op
	}
	return out
}

func TestLbSeq(t *testing.T) {
	synctest.Test(t, func(t *testing.T) {
		cw := NewCaseWriter("lbseq")
		idx := 0
		emit := func(kind string, c LbCase) {
			if Mine(idx) {
				if pre, err := json.Marshal(c); err == nil {
					cw.Begin(idx, kind, pre)
				}
				coq, stats := runLbCase(&c)
				repl, _ := json.Marshal(c)
				cw.Put(Case{Idx: idx, Kind: kind, Coq: coq, Repl: repl, Stats: stats})
			}
			idx++
		}
		if rp := ReplayCases(); rp != nil {
			for _, raw := range rp {
				var c LbCase
				if err := json.Unmarshal(raw, &c); err != nil {
					panic(err)
				}
				emit("replay", c)
			}
		} else {
			for _, c := range lbCorpus() {
				emit("corpus", c)
			}
			n := 900
			if Tier() == "thorough" {
				n = 16000
			}
			root := NewRng(Seed() + 4242)
			for i := 0; i < n; i++ {
				g := root.Fork(uint64(i))
				c := LbCase{Strategy: strategyNames[i%5], Gen: true, Seed: g.U64()}
				nb := g.Range(1, 5)
				for j := 0; j < nb; j++ {
					c.Backends = append(c.Backends, g.Range(0, 4))
				}
				c.Passive = g.Chance(80)
				c.PThr, c.PTimeout = g.Range(1, 3), []int{1, 5, 30}[g.Intn(3)]
				c.Lim = g.Chance(30)
				c.LMax, c.LRate = g.Range(1, 4), []int{1, 7, 60}[g.Intn(3)]
				c.Brk = g.Chance(40)
				c.BFthr, c.BSthr = g.Range(1, 3), g.Range(1, 3)
				// accepted configurations: max_requests = 0 (default: success_threshold) or >= success_threshold
				c.BMax = 0
				if g.Chance(70) {
					c.BMax = g.Range(c.BSthr, 3)
				}
				c.BInterval, c.BTimeout = []int{5, 30, 60}[g.Intn(3)], []int{5, 30, 60}[g.Intn(3)]
				emit("random", c)
			}
		}
		cw.Close()
		syscall.Exit(0)
	})
}
