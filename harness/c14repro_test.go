package verifharness

import (
	"net/http"
	"net/http/httptest"
	"testing"
	"time"

	"github.com/0xReLogic/Helios/internal/config"
	"github.com/0xReLogic/Helios/internal/plugins"
)

func TestReproC14(t *testing.T) {
	inner := http.HandlerFunc(func(w http.ResponseWriter, r *http.Request) {
		switch r.URL.Path {
		case "/204":
			w.WriteHeader(204)
		case "/flush404":
			w.WriteHeader(404)
			w.(http.Flusher).Flush()
			w.Write([]byte("nf"))
		case "/103":
			w.Header().Set("Link", "</s.css>; rel=preload")
			w.WriteHeader(103)
			w.WriteHeader(200)
			w.Write([]byte("ok"))
		}
	})
	h, err := plugins.BuildChain(config.PluginsConfig{Enabled: true, Chain: []config.PluginConfig{{Name: "size_limit", Config: map[string]interface{}{"max_response_body": 100}}}}, inner)
	if err != nil {
		t.Fatal(err)
	}
	for _, hh := range []struct {
		name string
		h    http.Handler
	}{{"direct", inner}, {"size_limit", h}} {
		srv := httptest.NewServer(hh.h)
		for _, p := range []string{"/204", "/flush404", "/103"} {
			r := rawExchange(srv.Listener.Addr().String(), buildRequest("GET", p, "x", nil, nil, ""), "GET", 2*time.Second)
			t.Logf("%s %s => interim=%v status=%d body=%q", hh.name, p, r.Interim, r.Status, r.Body)
		}
		srv.Close()
	}
}
