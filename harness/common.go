// Package verifharness drives the real Helios code on generated operation sequences and
// writes, per case, (a) the Coq term the in-kernel evaluator consumes and (b) a JSON form
// from which the same case can be replayed.
package verifharness

import (
	"bufio"
	"encoding/json"
	"fmt"
	"os"
	"path/filepath"
	"sort"
	"strconv"
	"strings"
)

// ---------- deterministic PRNG: splitmix64; every random choice derives from one state ----------

type Rng struct{ s uint64 }

func NewRng(seed uint64) *Rng { return &Rng{s: seed*0x9E3779B97F4A7C15 + 0x1234567} }

func (r *Rng) U64() uint64 {
	r.s += 0x9E3779B97F4A7C15
	z := r.s
	z = (z ^ (z >> 30)) * 0xBF58476D1CE4E5B9
	z = (z ^ (z >> 27)) * 0x94D049BB133111EB
	return z ^ (z >> 31)
}
func (r *Rng) Intn(n int) int {
	if n <= 0 {
		return 0
	}
	return int(r.U64() % uint64(n))
}
func (r *Rng) Range(lo, hi int) int     { return lo + r.Intn(hi-lo+1) } // inclusive
func (r *Rng) Bool() bool               { return r.U64()&1 == 1 }
func (r *Rng) Chance(pct int) bool      { return r.Intn(100) < pct }
func (r *Rng) PickI64(xs []int64) int64 { return xs[r.Intn(len(xs))] }
func (r *Rng) PickS(xs []string) string { return xs[r.Intn(len(xs))] }

// Fork derives an independent stream (so that case i does not depend on how many draws case i-1 made).
func (r *Rng) Fork(i uint64) *Rng { return NewRng(r.s ^ (i+1)*0xD6E8FEB86659FD93) }

// ---------- environment ----------

func envInt(name string, def int) int {
	if v := os.Getenv(name); v != "" {
		if n, err := strconv.Atoi(v); err == nil {
			return n
		}
	}
	return def
}
func envStr(name, def string) string {
	if v := os.Getenv(name); v != "" {
		return v
	}
	return def
}

func Seed() uint64   { return uint64(envInt("VERIF_SEED", 1)) }
func Tier() string   { return envStr("VERIF_TIER", "quick") }
func OutDir() string { return envStr("VERIF_OUT", ".") }

// Batch = (index, count): the driver runs several processes of one suite in parallel; each
// generates the cases whose global index i satisfies i % count == index.
func Batch() (int, int) { return envInt("VERIF_BATCH", 0), envInt("VERIF_BATCHES", 1) }

// ---------- case output ----------

// Case is one line of <suite>.<batch>.cases
type Case struct {
	Idx   int             `json:"idx"`   // global index within the suite
	Kind  string          `json:"kind"`  // corpus | enum | random | malformed
	Coq   string          `json:"coq"`   // Coq term of the suite's case type
	Repl  json.RawMessage `json:"repl"`  // replayable form (suite-specific JSON)
	Stats map[string]int  `json:"stats"` // op histogram etc. for the evidence distribution
}

type CaseWriter struct {
	f     *os.File
	w     *bufio.Writer
	suite string
	n     int
}

func NewCaseWriter(suite string) *CaseWriter {
	b, _ := Batch()
	if err := os.MkdirAll(OutDir(), 0o755); err != nil {
		panic(err)
	}
	p := filepath.Join(OutDir(), fmt.Sprintf("%s.%d.cases", suite, b))
	f, err := os.Create(p)
	if err != nil {
		panic(err)
	}
	return &CaseWriter{f: f, w: bufio.NewWriterSize(f, 1<<20), suite: suite}
}

// Begin records the case about to run: if the process hangs or dies while running it, the driver
// finds the history that did it in <suite>.<batch>.current
func (cw *CaseWriter) Begin(idx int, kind string, repl []byte) {
	b, _ := Batch()
	data, _ := json.Marshal(struct {
		Idx  int             `json:"idx"`
		Kind string          `json:"kind"`
		Repl json.RawMessage `json:"repl"`
	}{idx, kind, repl})
	os.WriteFile(filepath.Join(OutDir(), fmt.Sprintf("%s.%d.current", cw.suite, b)), data, 0o644)
}

func (cw *CaseWriter) Put(c Case) {
	b, err := json.Marshal(c)
	if err != nil {
		panic(err)
	}
	cw.w.Write(b)
	cw.w.WriteByte('\n')
	cw.n++
}

func (cw *CaseWriter) Close() {
	cw.w.Flush()
	cw.f.Close()
	b0, _ := Batch()
	os.Remove(filepath.Join(OutDir(), fmt.Sprintf("%s.%d.current", cw.suite, b0)))
	// completion marker: the driver treats a batch without it as crashed
	b, _ := Batch()
	os.WriteFile(filepath.Join(OutDir(), fmt.Sprintf("%s.%d.done", cw.suite, b)), []byte(strconv.Itoa(cw.n)), 0o644)
}

// Mine reports whether global case index i belongs to this batch process.
func Mine(i int) bool {
	b, n := Batch()
	return i%n == b
}

// ReplayCases returns the replay payloads when VERIF_REPLAY names a file of JSON lines (each
// a Case or a bare repl object); nil otherwise.
func ReplayCases() []json.RawMessage {
	p := os.Getenv("VERIF_REPLAY")
	if p == "" {
		return nil
	}
	data, err := os.ReadFile(p)
	if err != nil {
		panic(err)
	}
	var out []json.RawMessage
	for _, line := range strings.Split(string(data), "\n") {
		line = strings.TrimSpace(line)
		if line == "" {
			continue
		}
		var c struct {
			Repl json.RawMessage `json:"repl"`
		}
		if err := json.Unmarshal([]byte(line), &c); err == nil && len(c.Repl) > 0 {
			out = append(out, c.Repl)
		} else {
			out = append(out, json.RawMessage(line))
		}
	}
	return out
}

// ---------- Coq term helpers ----------

func Z(n int64) string {
	if n < 0 {
		return fmt.Sprintf("(%d)", n)
	}
	return strconv.FormatInt(n, 10)
}
func ZI(n int) string { return Z(int64(n)) }
func B(b bool) string {
	if b {
		return "true"
	}
	return "false"
}
func B01(b bool) string {
	if b {
		return "1"
	}
	return "0"
}
func List(items []string) string { return "[" + strings.Join(items, "; ") + "]" }
func ZList(xs []int64) string {
	s := make([]string, len(xs))
	for i, x := range xs {
		s[i] = Z(x)
	}
	return List(s)
}
func IList(xs []int) string {
	s := make([]string, len(xs))
	for i, x := range xs {
		s[i] = ZI(x)
	}
	return List(s)
}

// Bytes renders a Go string as a Coq list of byte values.
func Bytes(s string) string {
	// long runs of one byte are written as (rpt n c): parsing tens of thousands of numerals per case dominates the evaluation otherwise
	var parts []string
	var cur []string
	flush := func() {
		if len(cur) > 0 {
			parts = append(parts, List(cur))
			cur = nil
		}
	}
	for i := 0; i < len(s); {
		j := i
		for j < len(s) && s[j] == s[i] {
			j++
		}
		if j-i >= 64 {
			flush()
			parts = append(parts, fmt.Sprintf("rpt %d %d", j-i, s[i]))
		} else {
			for k := i; k < j; k++ {
				cur = append(cur, strconv.Itoa(int(s[k])))
			}
		}
		i = j
	}
	flush()
	switch len(parts) {
	case 0:
		return "[]"
	case 1:
		if strings.HasPrefix(parts[0], "[") {
			return parts[0]
		}
		return "(" + parts[0] + ")"
	}
	return "(" + strings.Join(parts, " ++ ") + ")"
}

func SortedKeys(m map[string]int) []string {
	ks := make([]string, 0, len(m))
	for k := range m {
		ks = append(ks, k)
	}
	sort.Strings(ks)
	return ks
}
