//go:build verif

package loadbalancer

import (
	"net/http"
	"reflect"
	"unsafe"
)

// Read-only exports for the verification harness (added at build time through -overlay; this
// file is not part of the repository tree).

// VerifJumpHash exposes jumpHash.
func VerifJumpHash(key uint64, n int32) int32 { return jumpHash(key, n) }

// VerifBackends returns the current *Backend objects in strategy order without disturbing
// rotation state.
func (lb *LoadBalancer) VerifBackends() []*Backend {
	lb.mutex.RLock()
	defer lb.mutex.RUnlock()
	return lb.strategy.GetBackends()
}

// VerifSetRRCounter sets the rotation counter of a round-robin strategy, whatever integer width the field has.
func VerifSetRRCounter(s Strategy, v uint64) bool {
	rr, ok := s.(*RoundRobinStrategy)
	if !ok {
		return false
	}
	f := reflect.ValueOf(rr).Elem().FieldByName("current")
	if !f.IsValid() || !f.CanAddr() {
		return false
	}
	p := reflect.NewAt(f.Type(), unsafe.Pointer(f.UnsafeAddr())).Elem()
	switch p.Kind() {
	case reflect.Uint, reflect.Uint8, reflect.Uint16, reflect.Uint32, reflect.Uint64, reflect.Uintptr:
		p.SetUint(v)
		return true
	case reflect.Int, reflect.Int8, reflect.Int16, reflect.Int32, reflect.Int64:
		p.SetInt(int64(v))
		return true
	}
	return false
}

// VerifFindHealthyBackend exposes the backend selection of a request (health refresh, strategy pick, re-check).
func (lb *LoadBalancer) VerifFindHealthyBackend(r *http.Request) *Backend {
	return lb.findHealthyBackend(r)
}
