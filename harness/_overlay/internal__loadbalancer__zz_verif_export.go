//go:build verif

package loadbalancer

// Read-only exports for the verification harness (added at build time through -overlay; this
// file is not part of the repository tree).

// VerifJumpHash exposes jumpHash.
func VerifJumpHash(key uint64, n int32) int32 { return jumpHash(key, n) }

// VerifBackends returns the current *Backend objects in strategy order without disturbing
// rotation state.
func (lb *LoadBalancer) VerifBackends() []*Backend {
	lb.mutex.RLock()
	defer lb.mutex.RUnlock()
	return lb.strategy.GetBackends()
}
