//go:build verif

package circuitbreaker

// VerifYieldHook is called at every yield point of the instrumented copies of this package's sources (schedule replay).
// It is nil except in the sched harness, where the files that call verifYield are substituted at build time.
var VerifYieldHook func(label string)

func verifYield(label string) {
	if h := VerifYieldHook; h != nil {
		h(label)
	}
}
