package verifharness

import (
	"encoding/json"
	"fmt"
	"math"
	"net/http"
	"net/http/httptest"
	"strings"
	"sync"
	"testing"

	"github.com/0xReLogic/Helios/internal/config"
	"github.com/0xReLogic/Helios/internal/plugins"
)

// ---- chain suite (C17): BuildChain on generated chains, one request through each built chain ----

// ChVal: a JSON-serialisable option value; T = null bool int float str list map
type ChVal struct {
	T string  `json:"t"`
	B bool    `json:"b,omitempty"`
	I int64   `json:"i,omitempty"`
	F float64 `json:"f,omitempty"`
	S string  `json:"s,omitempty"`
	L []ChVal `json:"l,omitempty"`
	M []ChKV  `json:"m,omitempty"`
}
type ChKV struct {
	K string `json:"k"`
	V ChVal  `json:"v"`
}
type ChEntry struct {
	Name string `json:"name"`
	Opts []ChKV `json:"opts"`
}
type ChCase struct {
	Enabled bool      `json:"enabled"`
	Chain   []ChEntry `json:"chain"`
	Key     string    `json:"key"`
	Len     int       `json:"len"`
	Proc    bool      `json:"proc"`            // also start the real binary on this chain
	Again   int       `json:"again,omitempty"` // build the chain from the SAME configuration value this many times first and use the last build
}

func (v ChVal) goValue() interface{} {
	switch v.T {
	case "bool":
		return v.B
	case "int":
		return int(v.I)
	case "float":
		return v.F
	case "str":
		return v.S
	case "list":
		out := []interface{}{}
		for _, x := range v.L {
			out = append(out, x.goValue())
		}
		return out
	case "map":
		out := map[string]interface{}{}
		for _, kv := range v.M {
			out[kv.K] = kv.V.goValue()
		}
		return out
	}
	return nil
}
func (v ChVal) coq() string {
	switch v.T {
	case "bool":
		return "VBool " + B(v.B)
	case "int":
		return "VInt " + Z(v.I)
	case "float":
		return "VFloat " + Z(int64(math.Trunc(v.F)))
	case "str":
		return "VStr " + Bytes(v.S)
	case "list":
		var it []string
		for _, x := range v.L {
			it = append(it, "("+x.coq()+")")
		}
		return "VList " + List(it)
	case "map":
		var it []string
		for _, kv := range v.M {
			it = append(it, "("+Bytes(kv.K)+", "+kv.V.coq()+")")
		}
		return "VMap " + List(it)
	}
	return "VNull"
}

var chRec struct {
	mu  sync.Mutex
	evs []int
}

func chEvent(e int) {
	chRec.mu.Lock()
	chRec.evs = append(chRec.evs, e)
	chRec.mu.Unlock()
}

var chProbeOnce sync.Once

func registerProbe() {
	chProbeOnce.Do(func() {
		plugins.RegisterBuiltin("vprobe", func(name string, cfg map[string]interface{}) (plugins.Middleware, error) {
			id, _ := cfg["id"].(int)
			reject, _ := cfg["reject"].(bool)
			return func(next http.Handler) http.Handler {
				return http.HandlerFunc(func(w http.ResponseWriter, r *http.Request) {
					chEvent(10*id + 1)
					if reject {
						chEvent(10*id + 2)
						http.Error(w, "probe says no", http.StatusForbidden)
					} else {
						next.ServeHTTP(w, r)
					}
					chEvent(10*id + 3)
				})
			}, nil
		})
	})
}

func runChCase(c ChCase, tag string) (string, map[string]int) {
	registerProbe()
	stats := map[string]int{}
	var pcs []config.PluginConfig
	for i, e := range c.Chain {
		m := map[string]interface{}{}
		for _, kv := range e.Opts {
			m[kv.K] = kv.V.goValue()
		}
		if e.Name == "vprobe" {
			m["id"] = i
		}
		pcs = append(pcs, config.PluginConfig{Name: e.Name, Config: m})
	}
	base := http.HandlerFunc(func(w http.ResponseWriter, r *http.Request) { chEvent(0); w.WriteHeader(200) })
	pc := config.PluginsConfig{Enabled: c.Enabled, Chain: pcs}
	for i := 0; i < c.Again; i++ { // rebuilding from one configuration value (a second listener, validate-then-serve) gives the same chain
		plugins.BuildChain(pc, base)
	}
	h, err := plugins.BuildChain(pc, base)
	built := err == nil && h != nil
	chRec.mu.Lock()
	chRec.evs = nil
	chRec.mu.Unlock()
	if built {
		req := httptest.NewRequest("POST", "/x", strings.NewReader(strings.Repeat("b", c.Len)))
		if c.Key != "\x00" {
			req.Header.Set("X-API-Key", c.Key)
		}
		// what the request carries besides: nothing of it may change how often or in which order the layers are entered
		switch c.Len % 4 {
		case 1:
			req.Header.Set("Accept-Encoding", "gzip")
			req.Header.Set("Range", "bytes=0-9")
		case 2:
			req.Header.Set("Accept-Encoding", "gzip, br")
		case 3:
			req.Header.Set("Range", "bytes=5-")
			req.Header.Set("If-Range", "\"v1\"")
		}
		rec := httptest.NewRecorder()
		func() {
			defer func() {
				if p := recover(); p != nil {
					chEvent(-999)
				}
			}()
			h.ServeHTTP(rec, req)
		}()
		stats[fmt.Sprintf("status_%d", rec.Code)]++
	} else {
		stats["build_error"]++
	}
	chRec.mu.Lock()
	trace := append([]int(nil), chRec.evs...)
	chRec.mu.Unlock()
	proc := -1
	if c.Proc {
		hasProbe := false
		for _, e := range c.Chain {
			if e.Name == "vprobe" {
				hasProbe = true // the binary does not know the probe plugin
			}
		}
		if !hasProbe {
			be := httptest.NewServer(http.HandlerFunc(func(w http.ResponseWriter, r *http.Request) {}))
			cfg := wiConfig(WiCfg{Strategy: "round_robin"}, freePort(), []string{be.URL})
			cfg.Plugins = config.PluginsConfig{Enabled: c.Enabled, Chain: pcs}
			hp, err := startHelios(cfg, "chain."+tag)
			if err == nil {
				proc = 1
				hp.stop()
			} else if strings.Contains(err.Error(), "exited at start-up") {
				proc = 0
			} else {
				proc = 2
			}
			be.Close()
			stats[fmt.Sprintf("proc_%d", proc)]++
		}
	}
	var chain []string
	for _, e := range c.Chain {
		var opts []string
		for _, kv := range e.Opts {
			opts = append(opts, "("+Bytes(kv.K)+", "+kv.V.coq()+")")
		}
		chain = append(chain, "("+Bytes(e.Name)+", "+List(opts)+")")
	}
	key := c.Key
	if key == "\x00" {
		key = ""
	}
	stats[fmt.Sprintf("len_%d", len(c.Chain))]++
	return fmt.Sprintf("mkChCase %s %s %s %d %s %s %s", B(c.Enabled), List(chain), Bytes(key), c.Len, B(built), IList(trace), ZI(proc)), stats
}

func vInt(i int64) ChVal     { return ChVal{T: "int", I: i} }
func vFloat(f float64) ChVal { return ChVal{T: "float", F: f} }
func vStr(s string) ChVal    { return ChVal{T: "str", S: s} }
func vNull() ChVal           { return ChVal{T: "null"} }

func genNumber(g *Rng, choices []int64) ChVal {
	n := choices[g.Intn(len(choices))]
	switch g.Intn(4) {
	case 0:
		return vFloat(float64(n))
	case 1:
		return vFloat(float64(n) + 0.5)
	}
	return vInt(n)
}

func genChEntry(g *Rng, valid bool) ChEntry {
	switch g.Intn(8) {
	case 0:
		return ChEntry{Name: "logging"}
	case 1:
		return ChEntry{Name: "request-id"}
	case 2:
		e := ChEntry{Name: "headers"}
		mk := func() ChVal {
			m := ChVal{T: "map", M: []ChKV{{K: "X-A", V: vStr("1")}}}
			if !valid && g.Chance(60) {
				switch g.Intn(3) {
				case 0:
					m.M = append(m.M, ChKV{K: "X-N", V: vInt(5)})
				case 1:
					return vStr("X-A: 1")
				default:
					return ChVal{T: "list", L: []ChVal{vStr("x")}}
				}
			}
			return m
		}
		if g.Chance(70) {
			e.Opts = append(e.Opts, ChKV{K: "set", V: mk()})
		}
		if g.Chance(50) {
			e.Opts = append(e.Opts, ChKV{K: "request_set", V: mk()})
		}
		if len(e.Opts) == 0 && g.Chance(30) {
			e.Opts = append(e.Opts, ChKV{K: "set", V: vNull()})
		}
		return e
	case 3:
		e := ChEntry{Name: "custom-auth"}
		if valid {
			e.Opts = []ChKV{{K: "apiKey", V: vStr([]string{"k1", "secret", " ", "k 2"}[g.Intn(4)])}}
		} else {
			switch g.Intn(5) {
			case 0:
			case 1:
				e.Opts = []ChKV{{K: "apiKey", V: vStr("")}}
			case 2:
				e.Opts = []ChKV{{K: "apiKey", V: vInt(12345)}}
			case 3:
				e.Opts = []ChKV{{K: "apikey", V: vStr("k1")}}
			default:
				e.Opts = []ChKV{{K: "apiKey", V: vNull()}}
			}
		}
		return e
	case 4, 5:
		e := ChEntry{Name: "size_limit"}
		good := []int64{1, 8, 16, 1000, 1 << 20}
		bad := []int64{0, -1, -100}
		if g.Chance(70) {
			e.Opts = append(e.Opts, ChKV{K: "max_request_body", V: genNumber(g, good)})
		}
		if g.Chance(60) {
			e.Opts = append(e.Opts, ChKV{K: "max_response_body", V: genNumber(g, good)})
		}
		if !valid {
			k := []string{"max_request_body", "max_response_body"}[g.Intn(2)]
			var v ChVal
			switch g.Intn(5) {
			case 0:
				v = vStr("10MB")
			case 1:
				v = vNull()
			case 2:
				v = vFloat(0.5) // truncates to 0
			case 3:
				v = ChVal{T: "bool", B: true}
			default:
				v = genNumber(g, bad)
			}
			var rest []ChKV
			for _, kv := range e.Opts {
				if kv.K != k {
					rest = append(rest, kv)
				}
			}
			e.Opts = append([]ChKV{{K: k, V: v}}, rest...)
		}
		return e
	case 6:
		e := ChEntry{Name: "gzip", Opts: []ChKV{{K: "level", V: genNumber(g, []int64{-1, 0, 1, 5, 9})}, {K: "min_size", V: genNumber(g, []int64{0, 1, 1024})},
			{K: "content_types", V: ChVal{T: "list", L: []ChVal{vStr("text/html"), vStr("application/json")}}}}}
		if !valid {
			switch g.Intn(6) {
			case 0:
				e.Opts[0].V = genNumber(g, []int64{-2, 10, 100})
			case 1:
				e.Opts = e.Opts[1:]
			case 2:
				e.Opts[1].V = vStr("1024")
			case 3:
				e.Opts = e.Opts[:2]
			case 4:
				e.Opts[2].V = ChVal{T: "list", L: []ChVal{vStr("text/html"), vInt(3)}}
			default:
				e.Opts[2].V = vStr("text/html")
			}
		}
		return e
	}
	e := ChEntry{Name: "vprobe"}
	if g.Chance(15) {
		e.Opts = []ChKV{{K: "reject", V: ChVal{T: "bool", B: true}}}
	}
	return e
}

func genChCase(g *Rng) ChCase {
	c := ChCase{Enabled: !g.Chance(8), Key: []string{"k1", "k1", "secret", "\x00", "", "K1", " ", "k1x", "k1k1", "secret key", "k1, k1", "xk1", "k"}[g.Intn(13)], Len: []int{0, 1, 8, 9, 16, 17, 1000, 1001}[g.Intn(8)]}
	c.Again = []int{0, 0, 0, 1, 1, 2}[g.Intn(6)]
	n := []int{0, 1, 2, 2, 3, 3, 4, 5, 5}[g.Intn(9)]
	badAt := -1
	if g.Chance(30) && n > 0 {
		badAt = g.Intn(n)
	}
	for i := 0; i < n; i++ {
		if i == badAt && g.Chance(35) {
			c.Chain = append(c.Chain, ChEntry{Name: []string{"gzipp", "", "Logging", "size-limit", "auth", "custom_auth", " ", "\t", "custom-auth "}[g.Intn(9)]})
			continue
		}
		e := genChEntry(g, i != badAt)
		if i > 0 && i != badAt && g.Chance(25) { // the plugin of an earlier entry again, with options of its own
			prev := c.Chain[g.Intn(len(c.Chain))].Name
			for k := 0; k < 20 && e.Name != prev; k++ {
				e = genChEntry(g, true)
			}
		}
		if g.Chance(45) { // interleave probes so that order and gating are visible
			c.Chain = append(c.Chain, ChEntry{Name: "vprobe"})
		}
		c.Chain = append(c.Chain, e)
	}
	if len(c.Chain) > 7 {
		c.Chain = c.Chain[:7]
	}
	return c
}

func TestChain(t *testing.T) {
	cw := NewCaseWriter("chain")
	idx := 0
	emit := func(kind string, c ChCase) {
		if Mine(idx) {
			if pre, err := json.Marshal(c); err == nil {
				cw.Begin(idx, kind, pre)
			}
			coq, stats := runChCase(c, fmt.Sprint(idx))
			repl, _ := json.Marshal(c)
			cw.Put(Case{Idx: idx, Kind: kind, Coq: coq, Repl: repl, Stats: stats})
		}
		idx++
	}
	if rp := ReplayCases(); rp != nil {
		for _, raw := range rp {
			var c ChCase
			if err := json.Unmarshal(raw, &c); err != nil {
				panic(err)
			}
			emit("replay", c)
		}
		cw.Close()
		return
	}
	probe := ChEntry{Name: "vprobe"}
	auth := ChEntry{Name: "custom-auth", Opts: []ChKV{{K: "apiKey", V: vStr("k1")}}}
	sl := ChEntry{Name: "size_limit", Opts: []ChKV{{K: "max_request_body", V: vInt(8)}}}
	corpus := []ChCase{
		{Enabled: true, Chain: []ChEntry{probe, auth, probe, sl, probe}, Key: "k1", Len: 8},
		{Enabled: true, Chain: []ChEntry{probe, auth, probe, sl, probe}, Key: "nope", Len: 8},
		{Enabled: true, Chain: []ChEntry{probe, auth, probe, sl, probe}, Key: "k1x", Len: 8},
		{Enabled: true, Chain: []ChEntry{probe, auth, probe, sl, probe}, Key: "k1k1", Len: 8},
		{Enabled: true, Chain: []ChEntry{probe, {Name: " "}, auth, probe}, Key: "k1"},
		{Enabled: true, Chain: []ChEntry{{Name: ""}, auth}, Key: "k1", Proc: true},
		{Enabled: true, Chain: []ChEntry{probe, auth, probe, sl, probe}, Key: "k1", Len: 9},
		{Enabled: true, Chain: []ChEntry{{Name: "logging"}, {Name: "nonexistent"}}, Key: "k1", Proc: true},
		{Enabled: true, Chain: []ChEntry{{Name: "custom-auth"}}, Key: "k1", Proc: true},
		{Enabled: true, Chain: []ChEntry{{Name: "size_limit", Opts: []ChKV{{K: "max_request_body", V: vInt(0)}}}}, Key: "k1", Proc: true},
		{Enabled: true, Chain: []ChEntry{{Name: "logging"}, auth, sl}, Key: "k1", Proc: true},
		{Enabled: false, Chain: []ChEntry{{Name: "nonexistent"}}, Key: "k1", Proc: true},
		{Enabled: true, Chain: []ChEntry{{Name: "custom-auth", Opts: []ChKV{{K: "apiKey", V: vStr(" ")}}}, probe}, Key: "\x00"},
		{Enabled: true, Chain: []ChEntry{{Name: "custom-auth", Opts: []ChKV{{K: "apiKey", V: vStr(" ")}}}, probe}, Key: ""},
		// the same plugin listed twice with different options: every entry keeps its own
		{Enabled: true, Chain: []ChEntry{sl, probe, {Name: "size_limit", Opts: []ChKV{{K: "max_request_body", V: vInt(1000)}}}, probe}, Key: "k1", Len: 9},
		{Enabled: true, Chain: []ChEntry{{Name: "size_limit", Opts: []ChKV{{K: "max_request_body", V: vInt(1000)}}}, probe, sl, probe}, Key: "k1", Len: 9},
		{Enabled: true, Chain: []ChEntry{auth, probe, {Name: "custom-auth", Opts: []ChKV{{K: "apiKey", V: vStr("secret")}}}, probe}, Key: "k1"},
		{Enabled: true, Chain: []ChEntry{auth, probe, {Name: "custom-auth", Opts: []ChKV{{K: "apiKey", V: vStr("secret")}}}, probe}, Key: "secret"},
		{Enabled: true, Chain: []ChEntry{probe, sl, auth, sl, auth, probe}, Key: "k1", Len: 8, Again: 1},
	}
	for _, c := range corpus {
		emit("corpus", c)
	}
	n, nproc := 1500, 24
	if Tier() == "thorough" {
		n, nproc = 30000, 400
	}
	root := NewRng(Seed() + 1717)
	for i := 0; i < n; i++ {
		c := genChCase(root.Fork(uint64(i)))
		c.Proc = i < nproc
		emit("random", c)
	}
	cw.Close()
}
