package verifharness

import (
	"bytes"
	"compress/gzip"
	"io"
	"net/http"
	"net/http/httptest"
	"strings"
	"testing"
	"time"

	"github.com/0xReLogic/Helios/internal/config"
	"github.com/0xReLogic/Helios/internal/plugins"
)

func gunzipAll(b []byte) ([]byte, error) {
	zr, err := gzip.NewReader(bytes.NewReader(b))
	if err != nil {
		return nil, err
	}
	return io.ReadAll(zr)
}

func TestReproC15(t *testing.T) {
	payload := strings.Repeat("{\"k\":\"vvvvvvvvvv\"},", 40)
	inner := http.HandlerFunc(func(w http.ResponseWriter, r *http.Request) {
		w.Header().Set("Content-Type", "application/json")
		switch r.URL.Path {
		case "/implicit":
			w.Write([]byte(payload))
		case "/explicit":
			w.WriteHeader(201)
			w.Write([]byte(payload))
		case "/encoded":
			w.Header().Set("Content-Encoding", "br")
			w.Write([]byte(payload))
		case "/flush":
			w.Write([]byte(payload[:100]))
			w.(http.Flusher).Flush()
			w.Write([]byte(payload[100:]))
		}
	})
	h, err := plugins.BuildChain(config.PluginsConfig{Enabled: true, Chain: []config.PluginConfig{{Name: "gzip", Config: map[string]interface{}{"level": 5.0, "min_size": 64.0, "content_types": []interface{}{"application/json"}}}}}, inner)
	if err != nil {
		t.Fatal(err)
	}
	srv := httptest.NewServer(h)
	defer srv.Close()
	for _, p := range []string{"/implicit", "/explicit", "/encoded", "/flush"} {
		r := rawExchange(srv.Listener.Addr().String(), buildRequest("GET", p, "x", [][2]string{{"Accept-Encoding", "gzip"}}, nil, ""), "GET", 2*time.Second)
		ce := r.Header.Get("Content-Encoding")
		decoded := r.Body
		derr := ""
		if ce == "gzip" {
			d, err := gunzipAll(r.Body)
			decoded = d
			if err != nil {
				derr = err.Error()
			}
		}
		t.Logf("%s => status=%d CE=%q CL=%q framing=%s wire=%d decodedOK=%v %s", p, r.Status, ce, r.Header.Get("Content-Length"), r.Framing, len(r.Body), string(decoded) == payload, derr)
	}
}
