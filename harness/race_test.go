package verifharness

import (
	"context"
	"encoding/json"
	"errors"
	"fmt"
	"io"
	"net/http"
	"net/http/httptest"
	"os"
	"regexp"
	"sort"
	"strings"
	"sync"
	"sync/atomic"
	"testing"
	"time"

	"github.com/0xReLogic/Helios/internal/adminapi"
	"github.com/0xReLogic/Helios/internal/circuitbreaker"
	"github.com/0xReLogic/Helios/internal/config"
	lbp "github.com/0xReLogic/Helios/internal/loadbalancer"
	"github.com/0xReLogic/Helios/internal/ratelimiter"
)

// ---- race suite (C12): a concurrent operation mix on the real balancer under the race detector (build with -race) ----

type RcCase struct {
	Kind       string `json:"kind,omitempty"` // "" = whole balancer; breaker | limiter | pool = that component alone, driven into its rare states
	Strategy   string `json:"strategy"`
	Breaker    bool   `json:"breaker"`
	Limiter    bool   `json:"limiter"`
	Active     bool   `json:"active"`
	Passive    bool   `json:"passive"`
	Pool       bool   `json:"pool"`
	Goroutines int    `json:"goroutines"`
	Millis     int    `json:"millis"`
	Seed       uint64 `json:"seed"`
	Churn      bool   `json:"churn,omitempty"` // one goroutine does nothing but add and remove one backend while the others send traffic
}

// brokenPipeWriter: a scraper that went away: the header goes out, every body write fails
type brokenPipeWriter struct{ h http.Header }

func (w *brokenPipeWriter) Header() http.Header {
	if w.h == nil {
		w.h = http.Header{}
	}
	return w.h
}
func (w *brokenPipeWriter) WriteHeader(int)           {}
func (w *brokenPipeWriter) Write([]byte) (int, error) { return 0, errors.New("write: broken pipe") }

// mixRT: backend transport with a mix of outcomes
type mixRT struct{ n *atomic.Uint64 }

func (m mixRT) RoundTrip(r *http.Request) (*http.Response, error) {
	k := m.n.Add(1)
	mk := func(code int, body io.ReadCloser, n int64) *http.Response {
		return &http.Response{StatusCode: code, Status: fmt.Sprint(code), Proto: "HTTP/1.1", ProtoMajor: 1, ProtoMinor: 1, Header: http.Header{"Content-Type": {"text/plain"}}, Body: body, ContentLength: n, Request: r}
	}
	switch k % 11 {
	case 3:
		return mk(500, io.NopCloser(strings.NewReader("e")), 1), nil
	case 5:
		return nil, errors.New("dial tcp: connection refused")
	case 7:
		return mk(200, &failingBody{}, -1), nil // dies mid-body: ReverseProxy aborts the handler
	case 9:
		return mk(503, io.NopCloser(strings.NewReader("e")), 1), nil
	}
	return mk(200, io.NopCloser(strings.NewReader("ok")), 2), nil
}

var raceRe = regexp.MustCompile(`(?m)^WARNING: DATA RACE`)

// raceLogCount counts the reports the detector has written so far (GORACE=log_path=<prefix>)
func raceLogCount() (int, string) {
	prefix := os.Getenv("VERIF_RACE_LOG")
	if prefix == "" {
		return 0, ""
	}
	b, err := os.ReadFile(fmt.Sprintf("%s.%d", prefix, os.Getpid()))
	if err != nil {
		return 0, ""
	}
	return len(raceRe.FindAllIndex(b, -1)), string(b)
}

var frameRe = regexp.MustCompile(`github\.com/0xReLogic/Helios/internal/([A-Za-z0-9_/]+)\.(\(\*?[A-Za-z0-9_]+\)\.)?([A-Za-z0-9_]+)`)
var accessRe = regexp.MustCompile(`(?m)^(Read|Write|Previous read|Previous write|Atomic|Previous atomic)[^\n]*by [^\n]*\n`)

// raceSites: per report, the first Helios function on each of the two access stacks
func raceSites(log string) []string {
	seen := map[string]bool{}
	for _, rep := range strings.Split(log, "WARNING: DATA RACE")[1:] {
		parts := accessRe.Split(rep, -1)
		var pair []string
		for _, p := range parts[1:] {
			if m := frameRe.FindStringSubmatch(p); m != nil {
				pair = append(pair, m[1]+"."+m[2]+m[3])
			}
			if len(pair) == 2 {
				break
			}
		}
		sort.Strings(pair)
		seen[strings.Join(pair, " <-> ")] = true
	}
	var out []string
	for s := range seen {
		out = append(out, s)
	}
	sort.Strings(out)
	return out
}

// runComponent: a component alone, in the states the whole-balancer mix rarely reaches (half-open trials in parallel, one
// bucket under many callers with the clean-up running, pool operations against Shutdown)
func runComponent(c RcCase) (panics int64, deadlock int) {
	var wg sync.WaitGroup
	var pn atomic.Int64
	guard := func(f func()) {
		defer wg.Done()
		defer func() {
			if p := recover(); p != nil && p != http.ErrAbortHandler {
				pn.Add(1)
			}
		}()
		f()
	}
	switch c.Kind {
	case "breaker":
		for round := 0; round < 6; round++ {
			cb := circuitbreaker.NewCircuitBreaker(circuitbreaker.Settings{Name: "rc", MaxRequests: 8, Interval: time.Second, Timeout: 3 * time.Millisecond,
				FailureThreshold: 2, SuccessThreshold: 4, OnStateChange: func(string, circuitbreaker.State, circuitbreaker.State) {}})
			for i := 0; i < 2; i++ {
				cb.Execute(func() error { return errors.New("x") })
			}
			time.Sleep(5 * time.Millisecond) // past the timeout: the next calls are half-open trials
			gate := make(chan struct{})
			for i := 0; i < c.Goroutines; i++ {
				wg.Add(1)
				go guard(func() {
					<-gate
					for k := 0; k < 20; k++ {
						cb.Execute(func() error {
							if k%7 == 3 {
								return errors.New("x")
							}
							return nil
						})
						cb.State()
						cb.Counts()
					}
				})
			}
			close(gate)
			wg.Wait()
		}
	case "limiter":
		rl := ratelimiter.NewTokenBucketRateLimiter(5, time.Millisecond)
		for i := 0; i < c.Goroutines; i++ {
			wg.Add(1)
			go guard(func() {
				for k := 0; k < 400; k++ {
					rl.Allow(fmt.Sprintf("c%d", k%3))
				}
			})
		}
		wg.Wait()
	case "pool":
		for round := 0; round < 4; round++ {
			pool := lbp.NewWebSocketPool(2, 10, time.Millisecond)
			for i := 0; i < c.Goroutines; i++ {
				wg.Add(1)
				id := i
				go guard(func() {
					for k := 0; k < 100; k++ {
						b := fmt.Sprintf("b%d", k%2)
						switch (k + id) % 5 {
						case 0, 1:
							pool.Put(b, &fakeConn{id: k})
						case 2:
							if cn := pool.Get(b); cn != nil {
								pool.Close(b, cn)
							}
						case 3:
							pool.Stats(b)
						default:
							if k == 50 && id == 0 {
								pool.Shutdown()
							}
						}
					}
				})
			}
			wg.Wait()
			pool.Shutdown()
		}
	}
	return pn.Load(), 0
}

func runRcCase(c RcCase) (string, map[string]int, []string) {
	stats := map[string]int{}
	before, _ := raceLogCount()
	if c.Kind != "" {
		panics, deadlock := runComponent(c)
		after, log := raceLogCount()
		sites := []string{}
		if after > before {
			sites = raceSites(log)
		}
		stats["component_"+c.Kind]++
		return fmt.Sprintf("mkRcCase %d %d %d %d %d", 1000, c.Goroutines, after-before, panics, deadlock), stats, sites
	}
	cfg := &config.Config{Server: config.ServerConfig{Port: 8080}, LoadBalancer: config.LoadBalancerConfig{Strategy: c.Strategy}}
	for i := 1; i <= 3; i++ {
		cfg.Backends = append(cfg.Backends, config.BackendConfig{Name: fmt.Sprintf("n%d", i), Address: fmt.Sprintf("http://rc%d.probe", i), Weight: i})
	}
	if c.Breaker {
		cfg.CircuitBreaker = config.CircuitBreakerConfig{Enabled: true, MaxRequests: 3, IntervalSeconds: 1, TimeoutSeconds: 1, FailureThreshold: 4, SuccessThreshold: 2}
	}
	if c.Limiter {
		cfg.RateLimit = config.RateLimitConfig{Enabled: true, MaxTokens: 50, RefillRate: 1}
	}
	if c.Active {
		cfg.HealthChecks.Active = config.ActiveHealthCheckConfig{Enabled: true, Interval: 1, Timeout: 1, Path: "/hc"}
	}
	cfg.HealthChecks.Passive = config.PassiveHealthCheckConfig{Enabled: c.Passive, UnhealthyThreshold: 2, UnhealthyTimeout: 1}
	if c.Pool {
		cfg.LoadBalancer.WebSocketPool = config.WebSocketPoolConfig{Enabled: true, MaxIdle: 2, MaxActive: 10, IdleTimeoutSeconds: 1}
	}
	cfg.AdminAPI = config.AdminAPIConfig{Enabled: true, Port: 9091, AuthToken: "t"}
	lb, err := lbp.NewLoadBalancer(cfg)
	if err != nil {
		panic(err)
	}
	var cnt atomic.Uint64
	var instMu sync.Mutex
	install := func() {
		instMu.Lock()
		defer instMu.Unlock()
		for _, b := range lb.VerifBackends() {
			if _, ok := b.ReverseProxy.Transport.(mixRT); !ok {
				b.ReverseProxy.Transport = mixRT{n: &cnt}
			}
		}
	}
	install()
	mux := adminapi.NewMux(lb, cfg, lb.GetMetricsCollector())
	mc := lb.GetMetricsCollector()
	var panics, served atomic.Int64
	stop := make(chan struct{})
	var wg sync.WaitGroup
	worker := func(id int) {
		defer wg.Done()
		g := NewRng(c.Seed*1000 + uint64(id))
		for {
			select {
			case <-stop:
				return
			default:
			}
			func() {
				defer func() {
					if p := recover(); p != nil && p != http.ErrAbortHandler {
						panics.Add(1)
					}
				}()
				if c.Churn && id == 0 { // nothing but membership changes of one name, as fast as they go
					name := "x9"
					lb.AddBackend(config.BackendConfig{Name: name, Address: "http://rcx9.probe", Weight: 1}) // its own transport: nothing of the harness is written into a backend that serves
					if g.Chance(50) {
						time.Sleep(time.Duration(g.Intn(40)) * time.Microsecond)
					}
					lb.RemoveBackend(name)
					return
				}
				switch x := g.Intn(100); {
				case x < 62: // client traffic
					req := httptest.NewRequest("GET", "http://lb.local/x", nil)
					req.RemoteAddr = fmt.Sprintf("10.0.%d.%d:1234", id%5, g.Intn(4))
					req = req.WithContext(context.WithValue(req.Context(), http.ServerContextKey, &http.Server{}))
					lb.ServeHTTP(httptest.NewRecorder(), req)
					served.Add(1)
				case x < 70: // admin: list / strategy / add / remove over the HTTP API
					var req *http.Request
					switch g.Intn(4) {
					case 0:
						req = httptest.NewRequest("GET", "/v1/backends", nil)
					case 1:
						req = httptest.NewRequest("POST", "/v1/strategy", strings.NewReader(fmt.Sprintf(`{"strategy":%q}`, strategyNames[g.Intn(5)])))
					case 2:
						req = httptest.NewRequest("POST", "/v1/backends/add", strings.NewReader(fmt.Sprintf(`{"name":"x%d","address":"http://rcx.probe","weight":%d}`, g.Intn(3), g.Intn(3))))
					default:
						req = httptest.NewRequest("POST", "/v1/backends/remove", strings.NewReader(fmt.Sprintf(`{"name":"x%d"}`, g.Intn(3))))
					}
					req.Header.Set("Authorization", "Bearer t")
					req.RemoteAddr = "127.0.0.1:999"
					mux.ServeHTTP(httptest.NewRecorder(), req)
				case x < 80: // metrics and health reads
					if g.Chance(12) { // the scraper went away while the reply was being written
						mc.MetricsHandler()(&brokenPipeWriter{}, httptest.NewRequest("GET", "/metrics", nil))
					} else if g.Bool() {
						mc.MetricsHandler()(httptest.NewRecorder(), httptest.NewRequest("GET", "/metrics", nil))
					} else {
						mc.HealthHandler()(httptest.NewRecorder(), httptest.NewRequest("GET", "/health", nil))
					}
				case x < 88:
					lb.ListBackends()
				case x < 94: // health transitions from the outside, as probes and passive checks do
					bs := lb.VerifBackends()
					if len(bs) > 0 {
						b := bs[g.Intn(len(bs))]
						if g.Bool() {
							lb.MarkBackendUnhealthy(b, time.Duration(g.Intn(3))*time.Millisecond)
						} else {
							lb.IsBackendHealthy(b)
						}
					}
				default:
					time.Sleep(time.Duration(g.Intn(300)) * time.Microsecond)
				}
			}()
		}
	}
	for i := 0; i < c.Goroutines; i++ {
		wg.Add(1)
		go worker(i)
	}
	time.Sleep(time.Duration(c.Millis) * time.Millisecond)
	// shutdown arrives while everything is running
	stopDone := make(chan struct{})
	go func() { lb.Stop(); lb.Stop(); close(stopDone) }()
	time.Sleep(20 * time.Millisecond)
	close(stop)
	deadlock := 0
	fin := make(chan struct{})
	go func() { wg.Wait(); <-stopDone; close(fin) }()
	select {
	case <-fin:
	case <-time.After(10 * time.Second):
		deadlock = 1
	}
	after, log := raceLogCount()
	sites := []string{}
	if after > before {
		sites = raceSites(log)
	}
	stats["requests"] = int(served.Load())
	code := strategyCode(c.Strategy)*32 + b2i(c.Breaker)*16 + b2i(c.Limiter)*8 + b2i(c.Active)*4 + b2i(c.Passive)*2 + b2i(c.Pool)
	return fmt.Sprintf("mkRcCase %d %d %d %d %d", code, c.Goroutines, after-before, panics.Load(), deadlock), stats, sites
}

func TestRace(t *testing.T) {
	http.DefaultTransport = probeRT{}
	cw := NewCaseWriter("race")
	var cases []RcCase
	g := NewRng(Seed() + 1212)
	n := 10
	ms := 250
	if Tier() == "thorough" {
		n, ms = 160, 600
	}
	for i := 0; i < n; i++ {
		cases = append(cases, RcCase{Strategy: strategyNames[i%5], Breaker: g.Bool(), Limiter: g.Bool(), Active: g.Bool(), Passive: g.Bool(), Pool: g.Bool(),
			Goroutines: []int{8, 16, 32, 64}[g.Intn(4)], Millis: ms, Seed: g.U64() % 100000})
	}
	// long enough for the breaker to go through open -> half-open -> closed / open again while metrics are being read
	cases = append(cases, RcCase{Strategy: "round_robin", Breaker: true, Goroutines: 16, Millis: 1500, Seed: 4242},
		RcCase{Strategy: "least_connections", Breaker: true, Passive: true, Goroutines: 8, Millis: 1300, Seed: 4243})
	// traffic against a backend that is added and removed without pause, every strategy
	for i := 0; i < 5; i++ {
		cases = append(cases, RcCase{Strategy: strategyNames[i], Passive: i%2 == 0, Goroutines: 16, Millis: ms, Seed: uint64(77 + i), Churn: true})
	}
	for _, k := range []string{"breaker", "limiter", "pool"} {
		cases = append(cases, RcCase{Kind: k, Goroutines: 8}, RcCase{Kind: k, Goroutines: 32})
	}
	if rp := ReplayCases(); rp != nil {
		cases = nil
		for _, raw := range rp {
			var c RcCase
			json.Unmarshal(raw, &c)
			cases = append(cases, c)
		}
	}
	for i, c := range cases {
		if Mine(i) {
			pre, _ := json.Marshal(c)
			cw.Begin(i, "soak", pre)
			coq, stats, sites := runRcCase(c)
			repl, _ := json.Marshal(struct {
				RcCase
				Sites []string `json:"race_sites"`
			}{c, sites})
			cw.Put(Case{Idx: i, Kind: "soak", Coq: coq, Repl: repl, Stats: stats})
		}
	}
	cw.Close()
}
