package main

// targets implemented in later files override these nil entries
var (
	genConfig     func(string) (string, error)
	genWrappers   func(string) (string, error)
	genProxyFacts func(string) (string, error)
	genAccess     func(string) (string, error)
)
