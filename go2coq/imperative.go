package main

// Translator for small imperative methods on one struct: the critical sections of internal/circuitbreaker/circuitbreaker.go
// (beforeRequest, afterRequest, setState) and of internal/ratelimiter/ratelimiter.go become Gallina functions
//     m : T -> Z (* now *) -> args -> T * Z (* returned value; 0 for nil / no value *)
// Every method is translated as ONE atomic step: lock and unlock calls are dropped (interleavings of the critical sections
// are the business of the schedule-replay suite).  Accepted subset - anything else is reported and breaks the tie:
//   fields       integers (any width: translated as unbounded Z, see DESIGN trusted base), time.Time / time.Duration (Z, ns; the
//                zero Time is 0), named integer types; every other field is dropped and must not be read
//   statements   x := e ; r.f = e ; r.f++ ; r.f += e ; if / else ; switch tag { case c: ... } ; return [e] ; r.m(args) for a
//                translated method ; x.Lock() / RLock() / Unlock() / RUnlock() and their defer forms (dropped) ;
//                `if r.callback != nil { ... }` on a func-typed field (dropped)
//   expressions  r.f, locals, parameters, integer and named constants, nil and the package's error variables (numbered),
//                time.Now() (the `now` parameter), t.IsZero() t.Add(d) t.Before(u) t.After(u) t.Sub(u), d.Nanoseconds(),
//                conversions between integer types (identity), + - * / == != < <= > >= && || !

import (
	"fmt"
	"go/ast"
	"go/parser"
	"go/token"
	"path/filepath"
	"sort"
	"strings"
)

type impStruct struct {
	name     string
	prefix   string
	fields   []string
	fieldSet map[string]bool
	ftype    map[string]string // "Z" or "bool"
	dropped  map[string]bool
	isBuf    map[string]bool // bytes.Buffer fields, kept as their length
}

type impTr struct {
	fset     *token.FileSet
	recvType string
	prefix   string // Coq name prefix of the receiver type
	structs  map[string]*impStruct
	sorder   []string
	vars     map[string]string // variable -> struct type, for the method being translated
	retBool  bool              // the method being translated returns a bool
	selfVar  string            // the variable whose object the method updates
	fields   []string          // translated fields of the receiver, in order
	fieldSet map[string]bool
	dropped  map[string]bool   // fields that exist but are not translated
	consts   map[string]string // named constants -> Coq term
	errs     map[string]int    // error variables -> code
	methods  map[string]*ast.FuncDecl
	order    []string
	locals   map[string]bool
	// emitter mode (response-writer wrappers): calls on the embedded writer become events appended to the synthetic field `out`
	emitter   string          // name of the embedded field (ResponseWriter), "" when off
	oracles   map[string]bool // methods of the receiver that are not translated: each becomes a bool parameter o_<name>
	usedOr    map[string]bool // oracles the method being translated mentions
	flushVars map[string]bool // variables bound by `f, ok := recv.W.(http.Flusher)`
	gzVars    map[string]bool // variables bound by gzip.NewWriterLevel(recv.W, ...)
}

var httpStatus = map[string]string{"StatusOK": "200", "StatusSwitchingProtocols": "101", "StatusRequestEntityTooLarge": "413",
	"StatusNoContent": "204", "StatusNotModified": "304", "StatusContinue": "100"}
var hdrKeys = map[string]string{"\"Content-Type\"": "H_CT", "\"Content-Length\"": "H_CL", "\"Content-Encoding\"": "H_CE"}
var hdrVals = map[string]string{"\"gzip\"": "1"}

// isEmbedded: recv.<emitter>
func (t *impTr) isEmbedded(e ast.Expr, recv string) bool {
	sel, ok := e.(*ast.SelectorExpr)
	if !ok || t.emitter == "" || sel.Sel.Name != t.emitter {
		return false
	}
	id, ok := sel.X.(*ast.Ident)
	return ok && id.Name == recv
}

// event recognises a call the wrapper makes on the underlying writer and renders it as a wcall term
func (t *impTr) event(e ast.Expr, recv string) (string, bool, error) {
	c, ok := e.(*ast.CallExpr)
	if !ok || t.emitter == "" {
		return "", false, nil
	}
	sel, ok := c.Fun.(*ast.SelectorExpr)
	if !ok {
		return "", false, nil
	}
	if t.isEmbedded(sel.X, recv) && len(c.Args) == 1 {
		a, err := t.expr(c.Args[0], recv)
		if err != nil {
			return "", false, err
		}
		switch sel.Sel.Name {
		case "WriteHeader":
			return "CHead " + a, true, nil
		case "Write":
			return "CWrite (PRaw " + a + ")", true, nil
		}
	}
	if id, ok := sel.X.(*ast.Ident); ok {
		if t.flushVars[id.Name] && sel.Sel.Name == "Flush" && len(c.Args) == 0 {
			return "CFlush", true, nil
		}
		if t.gzVars[id.Name] && sel.Sel.Name == "Write" && len(c.Args) == 1 {
			a, err := t.expr(c.Args[0], recv)
			if err != nil {
				return "", false, err
			}
			return "CWrite (PGz " + a + ")", true, nil
		}
	}
	// recv.Header().Set / Del
	if hc, ok := sel.X.(*ast.CallExpr); ok && len(hc.Args) == 0 {
		if hs, ok := hc.Fun.(*ast.SelectorExpr); ok && hs.Sel.Name == "Header" {
			if id, ok := hs.X.(*ast.Ident); ok && id.Name == recv {
				lit := func(i int) string {
					if bl, ok := c.Args[i].(*ast.BasicLit); ok && bl.Kind == token.STRING {
						return bl.Value
					}
					return ""
				}
				switch {
				case sel.Sel.Name == "Del" && len(c.Args) == 1 && hdrKeys[lit(0)] != "":
					return "CDel " + hdrKeys[lit(0)], true, nil
				case sel.Sel.Name == "Set" && len(c.Args) == 2 && hdrKeys[lit(0)] != "" && hdrVals[lit(1)] != "":
					return "CSet " + hdrKeys[lit(0)] + " " + hdrVals[lit(1)], true, nil
				}
				return "", false, fmt.Errorf("%s: header operation outside the subset", t.pos(e))
			}
		}
	}
	return "", false, nil
}

// bufWrite: recv.<buf>.Write(b) on a bytes.Buffer field; bufReset: recv.<buf>.Reset()
func (t *impTr) bufCall(e ast.Expr, recv, method string, nargs int) (string, []ast.Expr, bool) {
	c, ok := e.(*ast.CallExpr)
	if !ok || t.emitter == "" || len(c.Args) != nargs {
		return "", nil, false
	}
	sel, ok := c.Fun.(*ast.SelectorExpr)
	if !ok || sel.Sel.Name != method {
		return "", nil, false
	}
	fs, ok := sel.X.(*ast.SelectorExpr)
	if !ok {
		return "", nil, false
	}
	id, ok := fs.X.(*ast.Ident)
	if !ok || id.Name != t.selfVar {
		return "", nil, false
	}
	st := t.structs[t.vars[t.selfVar]]
	if st.ftype[fs.Sel.Name] != "Z" || !st.isBuf[fs.Sel.Name] {
		return "", nil, false
	}
	return fs.Sel.Name, c.Args, true
}

func (t *impTr) bufWrite(e ast.Expr, recv string) (string, ast.Expr, bool) {
	f, args, ok := t.bufCall(e, recv, "Write", 1)
	if !ok {
		return "", nil, false
	}
	return f, args[0], true
}

func (t *impTr) bufReset(e ast.Expr, recv string) (string, bool) {
	f, _, ok := t.bufCall(e, recv, "Reset", 0)
	return f, ok
}

func (t *impTr) isGzClose(e ast.Expr) bool {
	c, ok := e.(*ast.CallExpr)
	if !ok || len(c.Args) != 0 {
		return false
	}
	sel, ok := c.Fun.(*ast.SelectorExpr)
	if !ok || sel.Sel.Name != "Close" {
		return false
	}
	id, ok := sel.X.(*ast.Ident)
	return ok && t.gzVars[id.Name]
}

func (t *impTr) emitLet(ev string) string {
	st := t.structs[t.vars[t.selfVar]]
	return fmt.Sprintf("let self := %sset_out self (%sout self ++ [%s]) in", st.prefix, st.prefix, ev)
}

func (t *impTr) pos(n ast.Node) string { return t.fset.Position(n.Pos()).String() }

func isIntType(e ast.Expr) bool {
	switch x := e.(type) {
	case *ast.Ident:
		switch x.Name {
		case "int", "int8", "int16", "int32", "int64", "uint", "uint8", "uint16", "uint32", "uint64":
			return true
		}
	case *ast.SelectorExpr:
		if id, ok := x.X.(*ast.Ident); ok && id.Name == "time" && (x.Sel.Name == "Time" || x.Sel.Name == "Duration") {
			return true
		}
	}
	return false
}

func (t *impTr) expr(e ast.Expr, recv string) (string, error) {
	switch x := e.(type) {
	case *ast.ParenExpr:
		return t.expr(x.X, recv)
	case *ast.BasicLit:
		if x.Kind == token.INT {
			return x.Value, nil
		}
	case *ast.Ident:
		if x.Name == "nil" {
			return "0", nil
		}
		if x.Name == "true" || x.Name == "false" {
			return x.Name, nil
		}
		if c, ok := t.consts[x.Name]; ok {
			return c, nil
		}
		if c, ok := t.errs[x.Name]; ok {
			return fmt.Sprint(c), nil
		}
		if t.locals[x.Name] {
			return "v_" + x.Name, nil
		}
	case *ast.SelectorExpr:
		if id, ok := x.X.(*ast.Ident); ok {
			if tn, ok := t.vars[id.Name]; ok {
				st := t.structs[tn]
				if st.fieldSet[x.Sel.Name] {
					return fmt.Sprintf("(%s%s %s)", st.prefix, x.Sel.Name, t.coqVar(id.Name)), nil
				}
				return "", fmt.Errorf("%s: field %s.%s is not translated and is read", t.pos(e), tn, x.Sel.Name)
			}
		}
		if id, ok := x.X.(*ast.Ident); ok && id.Name == "http" && httpStatus[x.Sel.Name] != "" {
			return httpStatus[x.Sel.Name], nil
		}
		if id, ok := x.X.(*ast.Ident); ok && id.Name == "time" {
			switch x.Sel.Name {
			case "Nanosecond":
				return "1", nil
			case "Microsecond":
				return "1000", nil
			case "Millisecond":
				return "1000000", nil
			case "Second":
				return "1000000000", nil
			case "Minute":
				return "60000000000", nil
			case "Hour":
				return "3600000000000", nil
			}
		}
	case *ast.UnaryExpr:
		a, err := t.expr(x.X, recv)
		if err != nil {
			return "", err
		}
		switch x.Op {
		case token.NOT:
			return "(negb " + a + ")", nil
		case token.SUB:
			return "(- " + a + ")", nil
		}
	case *ast.BinaryExpr:
		a, err := t.expr(x.X, recv)
		if err != nil {
			return "", err
		}
		b, err := t.expr(x.Y, recv)
		if err != nil {
			return "", err
		}
		switch x.Op {
		case token.ADD:
			return "(" + a + " + " + b + ")", nil
		case token.SUB:
			return "(" + a + " - " + b + ")", nil
		case token.MUL:
			return "(" + a + " * " + b + ")", nil
		case token.QUO:
			return "(Z.quot " + a + " " + b + ")", nil
		case token.EQL:
			return "(Z.eqb " + a + " " + b + ")", nil
		case token.NEQ:
			return "(negb (Z.eqb " + a + " " + b + "))", nil
		case token.LSS:
			return "(" + a + " <? " + b + ")", nil
		case token.LEQ:
			return "(" + a + " <=? " + b + ")", nil
		case token.GTR:
			return "(" + b + " <? " + a + ")", nil
		case token.GEQ:
			return "(" + b + " <=? " + a + ")", nil
		case token.SHL:
			return "(Z.shiftl " + a + " " + b + ")", nil
		case token.LAND:
			return "(" + a + " && " + b + ")", nil
		case token.LOR:
			return "(" + a + " || " + b + ")", nil
		}
	case *ast.CallExpr:
		// conversions between integer types
		if isIntType(x.Fun) && len(x.Args) == 1 {
			return t.expr(x.Args[0], recv)
		}
		if id, ok := x.Fun.(*ast.Ident); ok && len(x.Args) == 1 {
			if _, isConst := t.consts["type:"+id.Name]; isConst { // named integer type
				return t.expr(x.Args[0], recv)
			}
		}
		// atomic.LoadInt32(&x.f) and the like: the field
		if sel, ok := x.Fun.(*ast.SelectorExpr); ok && len(x.Args) == 1 && strings.HasPrefix(sel.Sel.Name, "Load") {
			if id, ok := sel.X.(*ast.Ident); ok && id.Name == "atomic" {
				if u, ok := x.Args[0].(*ast.UnaryExpr); ok && u.Op == token.AND {
					return t.expr(u.X, recv)
				}
			}
		}
		// len(b) of a byte slice: byte slices are represented by their lengths
		if id, ok := x.Fun.(*ast.Ident); ok && id.Name == "len" && len(x.Args) == 1 && t.emitter != "" {
			return t.expr(x.Args[0], recv)
		}
		if sel, ok := x.Fun.(*ast.SelectorExpr); ok {
			if id, ok := sel.X.(*ast.Ident); ok && id.Name == "fmt" && sel.Sel.Name == "Errorf" {
				return "1", nil
			}
			if id, ok := sel.X.(*ast.Ident); ok && id.Name == recv && t.oracles[sel.Sel.Name] {
				t.usedOr[sel.Sel.Name] = true
				return "o_" + sel.Sel.Name, nil
			}
		}
		if sel, ok := x.Fun.(*ast.SelectorExpr); ok {
			if id, ok := sel.X.(*ast.Ident); ok && id.Name == "time" && sel.Sel.Name == "Now" && len(x.Args) == 0 {
				return "now", nil
			}
			if id, ok := sel.X.(*ast.Ident); ok && id.Name == "time" && sel.Sel.Name == "Since" && len(x.Args) == 1 {
				a, err := t.expr(x.Args[0], recv)
				if err != nil {
					return "", err
				}
				return "(now - " + a + ")", nil
			}
			base, err := t.expr(sel.X, recv)
			if err != nil {
				return "", err
			}
			var arg string
			if len(x.Args) == 1 {
				if arg, err = t.expr(x.Args[0], recv); err != nil {
					return "", err
				}
			}
			switch {
			case sel.Sel.Name == "IsZero" && len(x.Args) == 0:
				return "(Z.eqb " + base + " 0)", nil
			case sel.Sel.Name == "Add" && len(x.Args) == 1:
				return "(" + base + " + " + arg + ")", nil
			case sel.Sel.Name == "Sub" && len(x.Args) == 1:
				return "(" + base + " - " + arg + ")", nil
			case sel.Sel.Name == "Before" && len(x.Args) == 1:
				return "(" + base + " <? " + arg + ")", nil
			case sel.Sel.Name == "After" && len(x.Args) == 1:
				return "(" + arg + " <? " + base + ")", nil
			case sel.Sel.Name == "Nanoseconds" && len(x.Args) == 0:
				return base, nil
			case (sel.Sel.Name == "Len" || sel.Sel.Name == "Bytes") && len(x.Args) == 0 && t.emitter != "": // bytes.Buffer
				return base, nil
			}
		}
	}
	return "", fmt.Errorf("%s: expression outside the subset", t.pos(e))
}

func (t *impTr) zeroRet() string {
	if t.retBool {
		return "false"
	}
	return "0"
}

func (t *impTr) coqVar(name string) string {
	if name == t.selfVar {
		return "self"
	}
	return "v_" + name
}

// rootedAt reports whether a call chain starts at the named package (logging.L().Warn()...Msg(...))
func rootedAt(e ast.Expr, pkg string) bool {
	for {
		switch x := e.(type) {
		case *ast.CallExpr:
			e = x.Fun
		case *ast.SelectorExpr:
			e = x.X
		case *ast.Ident:
			return x.Name == pkg
		default:
			return false
		}
	}
}

func isLockCall(e ast.Expr) bool {
	c, ok := e.(*ast.CallExpr)
	if !ok {
		return false
	}
	sel, ok := c.Fun.(*ast.SelectorExpr)
	if !ok {
		return false
	}
	switch sel.Sel.Name {
	case "Lock", "Unlock", "RLock", "RUnlock":
		return len(c.Args) == 0
	}
	return false
}

// mentionsDropped reports whether the expression reads a dropped (untranslated) field of the receiver
func (t *impTr) mentionsDropped(e ast.Node, recv string) bool {
	found := false
	ast.Inspect(e, func(n ast.Node) bool {
		if sel, ok := n.(*ast.SelectorExpr); ok {
			if id, ok := sel.X.(*ast.Ident); ok {
				if tn, ok := t.vars[id.Name]; ok && t.structs[tn].dropped[sel.Sel.Name] {
					found = true
				}
			}
		}
		return true
	})
	return found
}

// block translates a statement list followed by the continuation rest (statements of the enclosing blocks)
func (t *impTr) block(stmts []ast.Stmt, rest [][]ast.Stmt, recv string, depth int) (string, error) {
	ind := strings.Repeat("  ", depth)
	if len(stmts) == 0 {
		if len(rest) == 0 {
			return "(self, 0)", nil
		}
		return t.block(rest[0], rest[1:], recv, depth)
	}
	s, tail := stmts[0], stmts[1:]
	cont := func() (string, error) { return t.block(tail, rest, recv, depth) }
	self := t.structs[t.vars[t.selfVar]]
	// x.f with x the updated object
	selfField := func(e ast.Expr) (string, bool, bool) { // field, is a translated field of self, is a dropped field of a known object
		sel, ok := e.(*ast.SelectorExpr)
		if !ok {
			return "", false, false
		}
		id, ok := sel.X.(*ast.Ident)
		if !ok {
			return "", false, false
		}
		tn, ok := t.vars[id.Name]
		if !ok {
			return "", false, false
		}
		if id.Name == t.selfVar && self.fieldSet[sel.Sel.Name] {
			return sel.Sel.Name, true, false
		}
		return sel.Sel.Name, false, t.structs[tn].dropped[sel.Sel.Name]
	}
	switch x := s.(type) {
	case *ast.ReturnStmt:
		if len(x.Results) == 0 {
			return "(self, " + t.zeroRet() + ")", nil
		}
		if t.emitter != "" && len(x.Results) == 1 {
			// return recv.W.Write(b) ; return recv.buf.Write(b) ; return gz.Close()
			if ev, ok, err := t.event(x.Results[0], recv); err != nil {
				return "", err
			} else if ok {
				return t.emitLet(ev) + "\n" + ind + "(self, 0)", nil
			}
			if f, arg, ok := t.bufWrite(x.Results[0], recv); ok {
				a, err := t.expr(arg, recv)
				if err != nil {
					return "", err
				}
				return fmt.Sprintf("let self := %sset_%s self ((%s%s self) + %s) in\n%s(self, 0)", self.prefix, f, self.prefix, f, a, ind), nil
			}
			if t.isGzClose(x.Results[0]) {
				return "(self, 0)", nil
			}
		}
		if len(x.Results) == 1 || (t.emitter != "" && len(x.Results) == 2) {
			// (n, err) results: the error is the returned value of the translation
			v, err := t.expr(x.Results[len(x.Results)-1], recv)
			if err != nil {
				return "", err
			}
			return "(self, " + v + ")", nil
		}
	case *ast.DeferStmt:
		if isLockCall(x.Call) {
			return cont()
		}
	case *ast.ExprStmt:
		if isLockCall(x.X) || rootedAt(x.X, "logging") {
			return cont()
		}
		if ev, ok, err := t.event(x.X, recv); err != nil {
			return "", err
		} else if ok {
			k, err := cont()
			if err != nil {
				return "", err
			}
			return t.emitLet(ev) + "\n" + ind + k, nil
		}
		if t.emitter != "" && t.isGzClose(x.X) {
			return cont()
		}
		if c, ok := x.X.(*ast.CallExpr); ok && len(c.Args) == 2 {
			if sel, ok := c.Fun.(*ast.SelectorExpr); ok && strings.HasPrefix(sel.Sel.Name, "Add") {
				if id, ok := sel.X.(*ast.Ident); ok && id.Name == "atomic" {
					if u, ok := c.Args[0].(*ast.UnaryExpr); ok && u.Op == token.AND {
						if f, isSelf, _ := selfField(u.X); isSelf {
							d, err := t.expr(c.Args[1], recv)
							if err != nil {
								return "", err
							}
							k, err := cont()
							if err != nil {
								return "", err
							}
							return fmt.Sprintf("let self := %sset_%s self ((%s%s self) + %s) in\n%s%s", self.prefix, f, self.prefix, f, d, ind, k), nil
						}
					}
				}
			}
		}
		if f, ok := t.bufReset(x.X, recv); ok {
			k, err := cont()
			if err != nil {
				return "", err
			}
			return fmt.Sprintf("let self := %sset_%s self 0 in\n%s%s", self.prefix, f, ind, k), nil
		}
		if c, ok := x.X.(*ast.CallExpr); ok {
			if call, ok, err := t.methodCall(c, recv); err != nil {
				return "", err
			} else if ok {
				k, err := cont()
				if err != nil {
					return "", err
				}
				return fmt.Sprintf("let self := fst (%s) in\n%s%s", call, ind, k), nil
			}
		}
	case *ast.AssignStmt:
		if t.emitter != "" && len(x.Rhs) == 1 {
			names := func() []string { // non-blank names on the left
				var ns []string
				for _, l := range x.Lhs {
					if id, ok := l.(*ast.Ident); ok && id.Name != "_" {
						ns = append(ns, id.Name)
					}
				}
				return ns
			}
			// `_ = gz.Close()`
			if t.isGzClose(x.Rhs[0]) && len(names()) == 0 {
				return cont()
			}
			// `gz, err := gzip.NewWriterLevel(recv.W, level)`
			if c, ok := x.Rhs[0].(*ast.CallExpr); ok && len(x.Lhs) == 2 {
				if sel, ok := c.Fun.(*ast.SelectorExpr); ok && sel.Sel.Name == "NewWriterLevel" && len(c.Args) == 2 && t.isEmbedded(c.Args[0], recv) {
					if id, ok := sel.X.(*ast.Ident); ok && id.Name == "gzip" {
						t.gzVars[x.Lhs[0].(*ast.Ident).Name] = true
						en := x.Lhs[1].(*ast.Ident).Name
						t.locals[en] = true
						k, err := cont()
						if err != nil {
							return "", err
						}
						return fmt.Sprintf("let v_%s := 0 in\n%s%s", en, ind, k), nil
					}
				}
			}
			// `n, err := recv.W.Write(b)` and the like: the event, then n = what the underlying writer accepted, err = nil
			if ev, ok, err := t.event(x.Rhs[0], recv); err != nil {
				return "", err
			} else if ok && len(x.Lhs) == 2 {
				var lets []string
				if id, ok := x.Lhs[0].(*ast.Ident); ok && id.Name != "_" {
					arg, err := t.expr(x.Rhs[0].(*ast.CallExpr).Args[0], recv)
					if err != nil {
						return "", err
					}
					t.locals[id.Name] = true
					lets = append(lets, fmt.Sprintf("let v_%s := accept %s in", id.Name, arg))
				}
				if id, ok := x.Lhs[1].(*ast.Ident); ok && id.Name != "_" {
					t.locals[id.Name] = true
					lets = append(lets, fmt.Sprintf("let v_%s := 0 in", id.Name))
				}
				k, err := cont()
				if err != nil {
					return "", err
				}
				return strings.Join(append(append([]string{}, lets...), t.emitLet(ev)), "\n"+ind) + "\n" + ind + k, nil
			}
			// `err := recv.m(args)` for a translated method
			if c, ok := x.Rhs[0].(*ast.CallExpr); ok && len(x.Lhs) == 1 {
				if id, ok := x.Lhs[0].(*ast.Ident); ok && id.Name != "_" {
					if call, ok, err := t.methodCall(c, recv); err != nil {
						return "", err
					} else if ok {
						t.locals[id.Name] = true
						k, err := cont()
						if err != nil {
							return "", err
						}
						return fmt.Sprintf("let '(self, v_%s) := %s in\n%s%s", id.Name, call, ind, k), nil
					}
				}
			}
		}
		if len(x.Lhs) == 1 && len(x.Rhs) == 1 {
			// `b := rl.getOrCreateBucket(...)`: the object the method works on is a parameter of the translation
			if id, ok := x.Lhs[0].(*ast.Ident); ok && x.Tok == token.DEFINE && id.Name == t.selfVar {
				return cont()
			}
			rhs, err := t.expr(x.Rhs[0], recv)
			if err != nil {
				return "", err
			}
			if id, ok := x.Lhs[0].(*ast.Ident); ok && (x.Tok == token.DEFINE || (x.Tok == token.ASSIGN && t.locals[id.Name])) {
				t.locals[id.Name] = true
				k, err := cont()
				if err != nil {
					return "", err
				}
				return fmt.Sprintf("let v_%s := %s in\n%s%s", id.Name, rhs, ind, k), nil
			}
			if f, isSelf, isDropped := selfField(x.Lhs[0]); isSelf {
				cur := fmt.Sprintf("(%s%s self)", self.prefix, f)
				var val string
				switch x.Tok {
				case token.ASSIGN:
					val = rhs
				case token.ADD_ASSIGN:
					val = "(" + cur + " + " + rhs + ")"
				case token.SUB_ASSIGN:
					val = "(" + cur + " - " + rhs + ")"
				default:
					return "", fmt.Errorf("%s: assignment operator outside the subset", t.pos(s))
				}
				k, err := cont()
				if err != nil {
					return "", err
				}
				return fmt.Sprintf("let self := %sset_%s self %s in\n%s%s", self.prefix, f, val, ind, k), nil
			} else if isDropped {
				return cont() // a write to a field the translation does not keep
			}
		}
	case *ast.IncDecStmt:
		if f, isSelf, _ := selfField(x.X); isSelf {
			op := "+"
			if x.Tok == token.DEC {
				op = "-"
			}
			k, err := cont()
			if err != nil {
				return "", err
			}
			return fmt.Sprintf("let self := %sset_%s self ((%s%s self) %s 1) in\n%s%s", self.prefix, f, self.prefix, f, op, ind, k), nil
		}
	case *ast.IfStmt:
		if x.Init != nil && t.emitter != "" {
			// `if f, ok := recv.W.(http.Flusher); ok { ... }`: the underlying writer is a Flusher (trusted base)
			if as, ok := x.Init.(*ast.AssignStmt); ok && len(as.Lhs) == 2 && len(as.Rhs) == 1 && x.Else == nil {
				if ta, ok := as.Rhs[0].(*ast.TypeAssertExpr); ok && t.isEmbedded(ta.X, recv) {
					if ts, ok := ta.Type.(*ast.SelectorExpr); ok && ts.Sel.Name == "Flusher" {
						if okid, ok := x.Cond.(*ast.Ident); ok && okid.Name == as.Lhs[1].(*ast.Ident).Name {
							t.flushVars[as.Lhs[0].(*ast.Ident).Name] = true
							return t.block(x.Body.List, append([][]ast.Stmt{tail}, rest...), recv, depth)
						}
					}
				}
			}
			// any other initialiser runs first
			plain := *x
			plain.Init = nil
			return t.block([]ast.Stmt{x.Init, &plain}, append([][]ast.Stmt{tail}, rest...), recv, depth)
		}
		if x.Init == nil {
			if t.mentionsDropped(x.Cond, recv) { // `if r.callback != nil { ... }`
				return cont()
			}
			c, err := t.expr(x.Cond, recv)
			if err != nil {
				return "", err
			}
			saved := copyLocals(t.locals)
			a, err := t.block(x.Body.List, append([][]ast.Stmt{tail}, rest...), recv, depth+1)
			if err != nil {
				return "", err
			}
			t.locals = copyLocals(saved)
			var els []ast.Stmt
			switch e := x.Else.(type) {
			case nil:
			case *ast.BlockStmt:
				els = e.List
			case *ast.IfStmt:
				els = []ast.Stmt{e}
			default:
				return "", fmt.Errorf("%s: else form outside the subset", t.pos(s))
			}
			b, err := t.block(els, append([][]ast.Stmt{tail}, rest...), recv, depth+1)
			if err != nil {
				return "", err
			}
			t.locals = saved
			return fmt.Sprintf("if %s then\n%s  %s\n%selse\n%s  %s", c, ind, a, ind, ind, b), nil
		}
	case *ast.SwitchStmt:
		if x.Init == nil && x.Tag != nil {
			tag, err := t.expr(x.Tag, recv)
			if err != nil {
				return "", err
			}
			var out strings.Builder
			var deflt []ast.Stmt
			for _, cc := range x.Body.List {
				clause := cc.(*ast.CaseClause)
				if clause.List == nil {
					deflt = clause.Body
					continue
				}
				var conds []string
				for _, ce := range clause.List {
					v, err := t.expr(ce, recv)
					if err != nil {
						return "", err
					}
					conds = append(conds, "(Z.eqb "+tag+" "+v+")")
				}
				saved := copyLocals(t.locals)
				body, err := t.block(clause.Body, append([][]ast.Stmt{tail}, rest...), recv, depth+1)
				if err != nil {
					return "", err
				}
				t.locals = saved
				fmt.Fprintf(&out, "if %s then\n%s  %s\n%selse ", strings.Join(conds, " || "), ind, body, ind)
			}
			saved := copyLocals(t.locals)
			d, err := t.block(deflt, append([][]ast.Stmt{tail}, rest...), recv, depth+1)
			if err != nil {
				return "", err
			}
			t.locals = saved
			out.WriteString("\n" + ind + "  " + d)
			return out.String(), nil
		}
	case *ast.BlockStmt:
		return t.block(x.List, append([][]ast.Stmt{tail}, rest...), recv, depth)
	}
	return "", fmt.Errorf("%s: statement outside the subset", t.pos(s))
}

// methodCall renders a call recv.m(args) of a translated method; the updated object is passed as `self`
func (t *impTr) methodCall(c *ast.CallExpr, recv string) (string, bool, error) {
	sel, ok := c.Fun.(*ast.SelectorExpr)
	if !ok {
		return "", false, nil
	}
	id, ok := sel.X.(*ast.Ident)
	if !ok || id.Name != recv {
		return "", false, nil
	}
	if _, ok := t.methods[sel.Sel.Name]; !ok || t.oracles[sel.Sel.Name] {
		return "", false, nil
	}
	var args []string
	for _, a := range c.Args {
		if aid, ok := a.(*ast.Ident); ok && aid.Name == t.selfVar {
			continue // the updated object travels as `self`
		}
		v, err := t.expr(a, recv)
		if err != nil {
			return "", false, err
		}
		args = append(args, v)
	}
	ro := ""
	if t.selfVar != recv {
		ro = " " + t.coqVar(recv)
	}
	acc := ""
	if t.emitter != "" {
		acc = " accept"
	}
	return fmt.Sprintf("%s%s%s%s self now %s", t.prefix, sel.Sel.Name, acc, ro, strings.Join(args, " ")), true, nil
}

func copyLocals(m map[string]bool) map[string]bool {
	c := map[string]bool{}
	for k, v := range m {
		c[k] = v
	}
	return c
}

// genImperative translates the named methods of recvType in file.  objType, when not empty, is a second struct: methods
// that receive (or obtain) a *objType work on that object and only read the receiver.
func genImperative(repo, rel, recvType, prefix, objType, objPrefix, objVar string, methods []string) (string, error) {
	return genImperativeOpt(repo, rel, recvType, prefix, objType, objPrefix, objVar, methods, "", nil)
}

// genImperativeOpt: with emitter != "" the receiver wraps an http.ResponseWriter held in the embedded field of that name: the
// calls it makes on that writer (WriteHeader, Write, Header().Set/Del, Flush through the http.Flusher assertion, a gzip
// writer's Write) are appended, as Model.RespWriter.wcall events, to a synthetic field `out`; []byte values and bytes.Buffer
// fields are represented by their lengths; `accept n` is what the underlying Write reports as written for n bytes; the
// methods named in oracles are not translated and become bool parameters.
func genImperativeOpt(repo, rel, recvType, prefix, objType, objPrefix, objVar string, methods []string, emitter string, oracles []string) (string, error) {
	fset := token.NewFileSet()
	f, err := parser.ParseFile(fset, filepath.Join(repo, rel), nil, 0)
	if err != nil {
		return "", err
	}
	t := &impTr{fset: fset, recvType: recvType, prefix: prefix, structs: map[string]*impStruct{},
		consts: map[string]string{}, errs: map[string]int{}, methods: map[string]*ast.FuncDecl{},
		emitter: emitter, oracles: map[string]bool{}}
	for _, o := range oracles {
		t.oracles[o] = true
	}
	want := map[string]string{recvType: prefix}
	if objType != "" {
		want[objType] = objPrefix
	}
	// named integer types first (they may be field types)
	for _, d := range f.Decls {
		if gd, ok := d.(*ast.GenDecl); ok && gd.Tok == token.TYPE {
			for _, sp := range gd.Specs {
				ts := sp.(*ast.TypeSpec)
				if isIntType(ts.Type) {
					t.consts["type:"+ts.Name.Name] = "Z"
				}
			}
		}
	}
	for _, d := range f.Decls {
		gd, ok := d.(*ast.GenDecl)
		if !ok {
			continue
		}
		switch gd.Tok {
		case token.TYPE:
			for _, sp := range gd.Specs {
				ts := sp.(*ast.TypeSpec)
				st, ok := ts.Type.(*ast.StructType)
				pre, wanted := want[ts.Name.Name]
				if !ok || !wanted {
					continue
				}
				is := &impStruct{name: ts.Name.Name, prefix: pre, fieldSet: map[string]bool{}, ftype: map[string]string{}, dropped: map[string]bool{}, isBuf: map[string]bool{}}
				for _, fl := range st.Fields.List {
					for _, n := range fl.Names {
						keep := isIntType(fl.Type)
						ft := "Z"
						if sel, ok := fl.Type.(*ast.SelectorExpr); ok && emitter != "" && sel.Sel.Name == "Buffer" {
							if id, ok := sel.X.(*ast.Ident); ok && id.Name == "bytes" {
								keep = true
								is.isBuf[n.Name] = true
							}
						}
						if id, ok := fl.Type.(*ast.Ident); ok && t.consts["type:"+id.Name] != "" {
							keep = true
						}
						if id, ok := fl.Type.(*ast.Ident); ok && id.Name == "bool" {
							keep, ft = true, "bool"
						}
						if keep {
							is.fields = append(is.fields, n.Name)
							is.fieldSet[n.Name] = true
							is.ftype[n.Name] = ft
						} else {
							is.dropped[n.Name] = true
						}
					}
				}
				if emitter != "" && is.name == recvType {
					is.fields = append(is.fields, "out")
					is.fieldSet["out"] = true
					is.ftype["out"] = "list wcall"
				}
				t.structs[is.name] = is
				t.sorder = append(t.sorder, is.name)
			}
		case token.CONST:
			iota := 0
			for _, sp := range gd.Specs {
				vs := sp.(*ast.ValueSpec)
				for i, n := range vs.Names {
					if len(vs.Values) > i {
						if lit, ok := vs.Values[i].(*ast.BasicLit); ok && lit.Kind == token.INT {
							t.consts[n.Name] = lit.Value
							continue
						}
						if id, ok := vs.Values[i].(*ast.Ident); ok && id.Name == "iota" {
							t.consts[n.Name] = fmt.Sprint(iota)
							continue
						}
						if v, err := t.expr(vs.Values[i], ""); err == nil {
							t.consts[n.Name] = v
						}
					} else if len(vs.Values) == 0 && gd.Lparen.IsValid() {
						t.consts[n.Name] = fmt.Sprint(iota) // implicit repetition of `= iota`
					}
				}
				iota++
			}
		case token.VAR:
			for _, sp := range gd.Specs {
				vs := sp.(*ast.ValueSpec)
				for i, n := range vs.Names {
					if len(vs.Values) > i {
						if c, ok := vs.Values[i].(*ast.CallExpr); ok {
							if sel, ok := c.Fun.(*ast.SelectorExpr); ok {
								if id, ok := sel.X.(*ast.Ident); ok && id.Name == "errors" && sel.Sel.Name == "New" {
									t.errs[n.Name] = len(t.errs) + 1
								}
							}
						}
					}
				}
			}
		}
	}
	for tn := range want {
		if t.structs[tn] == nil || (len(t.structs[tn].fields) == 0 && (objType == "" || tn == objType)) {
			return "", fmt.Errorf("struct %s not found or has no translated fields in %s", tn, rel)
		}
	}
	for _, d := range f.Decls {
		fd, ok := d.(*ast.FuncDecl)
		if !ok || fd.Recv == nil || len(fd.Recv.List) != 1 {
			continue
		}
		rt := fd.Recv.List[0].Type
		if st, ok := rt.(*ast.StarExpr); ok {
			rt = st.X
		}
		if id, ok := rt.(*ast.Ident); ok && id.Name == recvType {
			t.methods[fd.Name.Name] = fd
		}
	}
	var b strings.Builder
	fmt.Fprintf(&b, "(* source: %s, type %s.  Every method is one atomic step; integer fields are unbounded Z; time.Time and\n   time.Duration are nanoseconds (the zero Time is 0). *)\n", rel, recvType)
	if emitter != "" {
		b.WriteString("(* calls on the embedded " + emitter + " are events appended to the field `out`; byte slices and buffers are their lengths;\n   `accept n` is the count the underlying Write reports for n bytes; the underlying writer is an http.Flusher *)\n")
		b.WriteString("From Helios Require Import Base.Prelude Model.RespWriter.\n\n")
	} else {
		b.WriteString("From Helios Require Import Base.Prelude.\n\n")
	}
	sort.Strings(t.sorder)
	for _, tn := range t.sorder {
		is := t.structs[tn]
		fmt.Fprintf(&b, "Record %s := mk%s {", is.name, is.name)
		for i, fl := range is.fields {
			if i > 0 {
				b.WriteString(";")
			}
			fmt.Fprintf(&b, " %s%s : %s", is.prefix, fl, is.ftype[fl])
		}
		b.WriteString(" }.\n\n")
		for _, fl := range is.fields {
			fmt.Fprintf(&b, "Definition %sset_%s (self : %s) (v : %s) : %s :=\n  mk%s", is.prefix, fl, is.name, is.ftype[fl], is.name, is.name)
			for _, g := range is.fields {
				if g == fl {
					b.WriteString(" v")
				} else {
					fmt.Fprintf(&b, " (%s%s self)", is.prefix, g)
				}
			}
			b.WriteString(".\n")
		}
		b.WriteString("\n")
	}
	if len(t.errs) > 0 {
		b.WriteString("(* error values *)\n")
		var en []string
		for n := range t.errs {
			en = append(en, n)
		}
		sort.Slice(en, func(i, j int) bool { return t.errs[en[i]] < t.errs[en[j]] })
		for _, n := range en {
			fmt.Fprintf(&b, "Definition %s%s : Z := %d.\n", prefix, n, t.errs[n])
		}
		b.WriteString("\n")
	}
	// which object a method updates: a parameter of type *objType, the variable objVar obtained in its body, or the receiver
	selfOf := func(fd *ast.FuncDecl) string {
		recv := fd.Recv.List[0].Names[0].Name
		if objType == "" {
			return recv
		}
		for _, p := range fd.Type.Params.List {
			if st, ok := p.Type.(*ast.StarExpr); ok {
				if id, ok := st.X.(*ast.Ident); ok && id.Name == objType && len(p.Names) == 1 {
					return p.Names[0].Name
				}
			}
		}
		uses := false
		ast.Inspect(fd.Body, func(n ast.Node) bool {
			if as, ok := n.(*ast.AssignStmt); ok && as.Tok == token.DEFINE && len(as.Lhs) == 1 {
				if id, ok := as.Lhs[0].(*ast.Ident); ok && id.Name == objVar {
					uses = true
				}
			}
			return true
		})
		if uses {
			return objVar
		}
		return recv
	}
	done := map[string]bool{}
	var emit func(name string) error
	emit = func(name string) error {
		if done[name] {
			return nil
		}
		done[name] = true
		fd, ok := t.methods[name]
		if !ok {
			return fmt.Errorf("method %s.%s not found in %s", recvType, name, rel)
		}
		if len(fd.Recv.List[0].Names) != 1 {
			return fmt.Errorf("method %s.%s has no receiver name", recvType, name)
		}
		recv := fd.Recv.List[0].Names[0].Name
		var callErr error
		ast.Inspect(fd.Body, func(n ast.Node) bool {
			if c, ok := n.(*ast.CallExpr); ok {
				if sel, ok := c.Fun.(*ast.SelectorExpr); ok {
					if id, ok := sel.X.(*ast.Ident); ok && id.Name == recv {
						if _, ok := t.methods[sel.Sel.Name]; ok && sel.Sel.Name != name && sel.Sel.Name != "getOrCreateBucket" && !t.oracles[sel.Sel.Name] {
							if err := emit(sel.Sel.Name); err != nil {
								callErr = err
							}
						}
					}
				}
			}
			return true
		})
		if callErr != nil {
			return callErr
		}
		t.locals = map[string]bool{}
		t.usedOr, t.flushVars, t.gzVars = map[string]bool{}, map[string]bool{}, map[string]bool{}
		t.selfVar = selfOf(fd)
		t.vars = map[string]string{recv: recvType}
		selfType := recvType
		if t.selfVar != recv {
			t.vars[t.selfVar] = objType
			selfType = objType
		}
		var params []string
		if t.selfVar != recv {
			params = append(params, fmt.Sprintf("(v_%s : %s)", recv, recvType))
		}
		if emitter != "" {
			params = append(params, "(accept : Z -> Z)")
		}
		params = append(params, fmt.Sprintf("(self : %s) (now : Z)", selfType))
		for _, p := range fd.Type.Params.List {
			for _, n := range p.Names {
				if n.Name == t.selfVar {
					continue
				}
				typ := "Z"
				if id, ok := p.Type.(*ast.Ident); ok && id.Name == "bool" {
					typ = "bool"
				}
				if id, ok := p.Type.(*ast.Ident); ok && id.Name == "string" {
					continue // keys of the bucket map: the object is a parameter of the translation
				}
				t.locals[n.Name] = true
				params = append(params, fmt.Sprintf("(v_%s : %s)", n.Name, typ))
			}
		}
		t.retBool = false
		if fd.Type.Results != nil && len(fd.Type.Results.List) == 1 {
			if id, ok := fd.Type.Results.List[0].Type.(*ast.Ident); ok && id.Name == "bool" {
				t.retBool = true
			}
		}
		body, err := t.block(fd.Body.List, nil, recv, 1)
		if err != nil {
			return fmt.Errorf("%s.%s: %v", recvType, name, err)
		}
		rt := "Z"
		if t.retBool {
			rt = "bool"
		}
		var ors []string
		for o := range t.usedOr {
			ors = append(ors, o)
		}
		sort.Strings(ors)
		for _, o := range ors {
			params = append(params, fmt.Sprintf("(o_%s : bool)", o))
		}
		fmt.Fprintf(&b, "Definition %s%s %s : %s * %s :=\n  %s.\n\n", prefix, name, strings.Join(params, " "), selfType, rt, body)
		t.order = append(t.order, name)
		return nil
	}
	for _, m := range methods {
		if err := emit(m); err != nil {
			return "", err
		}
	}
	if emitter != "" {
		// the optional interfaces net/http, httputil.ReverseProxy and http.ResponseController look for on a ResponseWriter
		codes := map[string]int{"Flush": 1, "Hijack": 2, "ReadFrom": 3, "Unwrap": 4, "FlushError": 5, "Push": 6, "CloseNotify": 7,
			"WriteString": 8, "SetReadDeadline": 9, "SetWriteDeadline": 10, "EnableFullDuplex": 11}
		var have []int
		for name := range t.methods {
			if c, ok := codes[name]; ok {
				have = append(have, c)
			}
		}
		sort.Ints(have)
		var hs []string
		for _, c := range have {
			hs = append(hs, fmt.Sprint(c))
		}
		b.WriteString("(* optional interfaces the type implements: 1 Flush, 2 Hijack, 3 ReadFrom, 4 Unwrap, 5 FlushError, 6 Push, 7 CloseNotify,\n   8 WriteString, 9 SetReadDeadline, 10 SetWriteDeadline, 11 EnableFullDuplex *)\n")
		fmt.Fprintf(&b, "Definition %soptional_interfaces : list Z := [%s].\n", prefix, strings.Join(hs, "; "))
	}
	return b.String(), nil
}

func genBreaker(repo string) (string, error) {
	return genImperative(repo, "internal/circuitbreaker/circuitbreaker.go", "CircuitBreaker", "cb_", "", "", "", []string{"beforeRequest", "afterRequest", "State"})
}

func genHealthGate(repo string) (string, error) {
	return genImperative(repo, "internal/loadbalancer/loadbalancer.go", "LoadBalancer", "lb_", "Backend", "be_", "backend", []string{"MarkBackendUnhealthy", "IsBackendHealthy"})
}

func genLimiter(repo string) (string, error) {
	return genImperative(repo, "internal/ratelimiter/ratelimiter.go", "TokenBucketRateLimiter", "rl_", "bucket", "bk_", "b", []string{"refillTokens", "Allow", "bucketMaxAge"})
}

func genSizeLimitWriter(repo string) (string, error) {
	return genImperativeOpt(repo, "internal/plugins/sizelimit.go", "limitedResponseWriter", "slg_", "", "", "",
		[]string{"ensureHeaderWritten", "checkLimit", "WriteHeader", "Write", "Flush"}, "ResponseWriter", nil)
}

func genGzipWriter(repo string) (string, error) {
	return genImperativeOpt(repo, "internal/plugins/compression.go", "gzipResponseWriter", "gzg_", "", "", "",
		[]string{"commit", "streamUncompressed", "WriteHeader", "Write", "Flush", "Finish"}, "ResponseWriter", []string{"shouldGzipBody"})
}

func genBackendObj(repo string) (string, error) {
	return genImperative(repo, "internal/loadbalancer/loadbalancer.go", "Backend", "bo_", "", "", "",
		[]string{"markedHealthy", "IncrementConnections", "DecrementConnections", "GetActiveConnections"})
}
