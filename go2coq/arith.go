package main

// Translator for small integer-arithmetic functions: typed expressions with Go's wrap-around
// semantics made explicit (wrap_u64, wrap_s64, wrap_s32 ...), one `for cond { assignments }` loop.
// Used for jumpHash (internal/loadbalancer/ip_hash_consistent.go).

import (
	"fmt"
	"go/ast"
	"go/constant"
	"go/importer"
	"go/parser"
	"go/printer"
	"go/token"
	"go/types"
	"path/filepath"
	"strings"
)

type arithTr struct {
	fset *token.FileSet
	info *types.Info
}

func wrapFor(t types.Type) (string, error) {
	b, ok := t.Underlying().(*types.Basic)
	if !ok {
		return "", fmt.Errorf("non-basic type %s", t)
	}
	switch b.Kind() {
	case types.Uint64:
		return "wrap_u64", nil
	case types.Int64, types.Int:
		return "wrap_s64", nil
	case types.Uint32:
		return "wrap_u32", nil
	case types.Int32:
		return "wrap_s32", nil
	case types.UntypedInt:
		return "", nil
	}
	return "", fmt.Errorf("unsupported integer type %s", t)
}

func isUnsigned(t types.Type) bool {
	b, ok := t.Underlying().(*types.Basic)
	return ok && b.Info()&types.IsUnsigned != 0
}

func (a *arithTr) pos(n ast.Node) string { return a.fset.Position(n.Pos()).String() }

func (a *arithTr) expr(e ast.Expr) (string, error) {
	tv, ok := a.info.Types[e]
	if !ok {
		return "", fmt.Errorf("%s: untyped expression", a.pos(e))
	}
	if tv.Value != nil { // constant expression: take the value the compiler computes
		if tv.Value.Kind() != constant.Int {
			return "", fmt.Errorf("%s: non-integer constant", a.pos(e))
		}
		s := tv.Value.ExactString()
		if strings.HasPrefix(s, "-") {
			return "(" + s + ")", nil
		}
		return s, nil
	}
	switch x := e.(type) {
	case *ast.ParenExpr:
		return a.expr(x.X)
	case *ast.Ident:
		return "v_" + x.Name, nil
	case *ast.CallExpr: // conversion T(x)
		if len(x.Args) != 1 {
			return "", fmt.Errorf("%s: call is not a conversion", a.pos(e))
		}
		ft, ok := a.info.Types[x.Fun]
		if !ok || !ft.IsType() {
			return "", fmt.Errorf("%s: call is not a conversion", a.pos(e))
		}
		w, err := wrapFor(ft.Type)
		if err != nil {
			return "", fmt.Errorf("%s: %v", a.pos(e), err)
		}
		in, err := a.expr(x.Args[0])
		if err != nil {
			return "", err
		}
		return fmt.Sprintf("(%s %s)", w, in), nil
	case *ast.BinaryExpr:
		l, err := a.expr(x.X)
		if err != nil {
			return "", err
		}
		r, err := a.expr(x.Y)
		if err != nil {
			return "", err
		}
		switch x.Op {
		case token.LSS:
			return fmt.Sprintf("(Z.ltb %s %s)", l, r), nil
		case token.LEQ:
			return fmt.Sprintf("(Z.leb %s %s)", l, r), nil
		case token.GTR:
			return fmt.Sprintf("(Z.ltb %s %s)", r, l), nil
		case token.GEQ:
			return fmt.Sprintf("(Z.leb %s %s)", r, l), nil
		}
		w, err := wrapFor(tv.Type)
		if err != nil {
			return "", fmt.Errorf("%s: %v", a.pos(e), err)
		}
		var op string
		switch x.Op {
		case token.ADD:
			op = "Z.add"
		case token.SUB:
			op = "Z.sub"
		case token.MUL:
			op = "Z.mul"
		case token.QUO:
			op = "Z.quot" // Go integer division truncates toward zero
		case token.REM:
			op = "Z.rem"
		case token.SHR:
			if !isUnsigned(tv.Type) {
				return "", fmt.Errorf("%s: >> on a signed operand is outside the subset", a.pos(e))
			}
			op = "Z.shiftr"
		case token.SHL:
			op = "Z.shiftl"
		default:
			return "", fmt.Errorf("%s: operator %s outside the subset", a.pos(e), x.Op)
		}
		return fmt.Sprintf("(%s (%s %s %s))", w, op, l, r), nil
	}
	return "", fmt.Errorf("%s: expression form %T outside the subset", a.pos(e), e)
}

// genJump translates jumpHash: prologue of `var x T = c` declarations, one for loop whose body is
// a list of simple assignments to local variables/parameters, and `return T(x)`.
func genJump(repo string) (string, error) {
	path := filepath.Join(repo, "internal/loadbalancer/ip_hash_consistent.go")
	fset := token.NewFileSet()
	f, err := parser.ParseFile(fset, path, nil, 0)
	if err != nil {
		return "", err
	}
	var fn *ast.FuncDecl
	for _, d := range f.Decls {
		if fd, ok := d.(*ast.FuncDecl); ok && fd.Name.Name == "jumpHash" && fd.Recv == nil {
			fn = fd
		}
	}
	if fn == nil {
		return "", fmt.Errorf("func jumpHash not found in %s", path)
	}
	// type-check the function alone (it uses builtin types only)
	var sb strings.Builder
	sb.WriteString("package p\n")
	// keep the imports the function refers to (e.g. math), resolved from the installed standard library
	used := map[string]bool{}
	ast.Inspect(fn, func(n ast.Node) bool {
		if se, ok := n.(*ast.SelectorExpr); ok {
			if id, ok := se.X.(*ast.Ident); ok {
				used[id.Name] = true
			}
		}
		return true
	})
	for _, im := range f.Imports {
		path := strings.Trim(im.Path.Value, "\"")
		name := path[strings.LastIndex(path, "/")+1:]
		if im.Name != nil {
			name = im.Name.Name
		}
		if used[name] {
			if im.Name != nil {
				fmt.Fprintf(&sb, "import %s %s\n", im.Name.Name, im.Path.Value)
			} else {
				fmt.Fprintf(&sb, "import %s\n", im.Path.Value)
			}
		}
	}
	if err := printer.Fprint(&sb, fset, fn); err != nil {
		return "", err
	}
	fset2 := token.NewFileSet()
	f2, err := parser.ParseFile(fset2, "jumpHash.go", sb.String(), 0)
	if err != nil {
		return "", err
	}
	info := &types.Info{Types: map[ast.Expr]types.TypeAndValue{}, Defs: map[*ast.Ident]types.Object{}, Uses: map[*ast.Ident]types.Object{}}
	conf := types.Config{Importer: importer.ForCompiler(fset2, "source", nil)}
	if _, err := conf.Check("p", fset2, []*ast.File{f2}, info); err != nil {
		return "", fmt.Errorf("jumpHash no longer type-checks in isolation: %v", err)
	}
	fn = nil
	for _, d := range f2.Decls {
		if fd, ok := d.(*ast.FuncDecl); ok {
			fn = fd
		}
	}
	a := &arithTr{fset: fset2, info: info}

	var params []string
	for _, fl := range fn.Type.Params.List {
		for _, n := range fl.Names {
			params = append(params, n.Name)
		}
	}
	if len(params) != 2 {
		return "", fmt.Errorf("jumpHash: expected 2 parameters")
	}
	var locals []string // in declaration order
	inits := map[string]string{}
	var loop *ast.ForStmt
	var ret *ast.ReturnStmt
	for _, st := range fn.Body.List {
		switch s := st.(type) {
		case *ast.DeclStmt:
			gd, ok := s.Decl.(*ast.GenDecl)
			if !ok || gd.Tok != token.VAR || loop != nil {
				return "", fmt.Errorf("%s: declaration outside the subset", a.pos(st))
			}
			for _, sp := range gd.Specs {
				vs := sp.(*ast.ValueSpec)
				if len(vs.Names) != 1 || len(vs.Values) != 1 {
					return "", fmt.Errorf("%s: var spec outside the subset", a.pos(st))
				}
				v, err := a.expr(vs.Values[0])
				if err != nil {
					return "", err
				}
				locals = append(locals, vs.Names[0].Name)
				inits[vs.Names[0].Name] = v
			}
		case *ast.ForStmt:
			if loop != nil || s.Init != nil || s.Post != nil || s.Cond == nil {
				return "", fmt.Errorf("%s: loop form outside the subset", a.pos(st))
			}
			loop = s
		case *ast.ReturnStmt:
			if loop == nil || len(s.Results) != 1 {
				return "", fmt.Errorf("%s: return outside the subset", a.pos(st))
			}
			ret = s
		default:
			return "", fmt.Errorf("%s: statement %T outside the subset", a.pos(st), st)
		}
	}
	if loop == nil || ret == nil {
		return "", fmt.Errorf("jumpHash: loop or return missing")
	}
	cond, err := a.expr(loop.Cond)
	if err != nil {
		return "", err
	}
	// state = first parameter (key) + locals; second parameter (numBuckets) is read-only
	state := append([]string{params[0]}, locals...)
	var body []string
	for _, st := range loop.Body.List {
		as, ok := st.(*ast.AssignStmt)
		if !ok || as.Tok != token.ASSIGN || len(as.Lhs) != 1 || len(as.Rhs) != 1 {
			return "", fmt.Errorf("%s: loop statement outside the subset", a.pos(st))
		}
		id, ok := as.Lhs[0].(*ast.Ident)
		if !ok {
			return "", fmt.Errorf("%s: assignment target outside the subset", a.pos(st))
		}
		found := false
		for _, s := range state {
			if s == id.Name {
				found = true
			}
		}
		if !found {
			return "", fmt.Errorf("%s: assignment to %s (not loop state)", a.pos(st), id.Name)
		}
		rhs, err := a.expr(as.Rhs[0])
		if err != nil {
			return "", err
		}
		body = append(body, fmt.Sprintf("    let v_%s := %s in", id.Name, rhs))
	}
	retE, err := a.expr(ret.Results[0])
	if err != nil {
		return "", err
	}
	vs := func(names []string) string {
		out := make([]string, len(names))
		for i, n := range names {
			out[i] = "v_" + n
		}
		return strings.Join(out, " ")
	}
	tuple := func(names []string) string {
		out := make([]string, len(names))
		for i, n := range names {
			out[i] = "v_" + n
		}
		return "(" + strings.Join(out, ", ") + ")"
	}
	if len(state) != 3 {
		return "", fmt.Errorf("jumpHash: expected loop state of 3 variables (key and two locals), got %v", state)
	}
	var o strings.Builder
	o.WriteString("From Coq Require Import ZArith.\nFrom Helios Require Import Base.Wrap.\nOpen Scope Z_scope.\n\n")
	fmt.Fprintf(&o, "(* loop state: %s ; read-only parameter: %s *)\n", strings.Join(state, ", "), params[1])
	for _, l := range locals {
		fmt.Fprintf(&o, "Definition jh_init_%s : Z := %s.\n", l, inits[l])
	}
	fmt.Fprintf(&o, "Definition jh_cond (%s v_%s : Z) : bool := %s.\n", vs(state), params[1], cond)
	fmt.Fprintf(&o, "Definition jh_body (%s : Z) : Z * Z * Z :=\n%s\n    %s.\n", vs(state), strings.Join(body, "\n"), tuple(state))
	fmt.Fprintf(&o, "Definition jh_ret (%s : Z) : Z := %s.\n", vs(state), retE)
	fmt.Fprintf(&o, "Definition jh_state_names : unit := tt. (* %s *)\n", strings.Join(state, " "))
	return o.String(), nil
}
