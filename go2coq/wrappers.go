package main

// Structural facts about the response-writer wrappers and the per-backend reverse proxy:
//  Wrappers.v   every struct type that embeds http.ResponseWriter, and for each optional interface
//               (Flush, Hijack, Unwrap) whether the type declares the method and whether its body
//               delegates to the embedded writer through a type assertion / direct return
//  ProxyFacts.v the fields assigned on the httputil.ReverseProxy in AddBackend, the boolean / constant
//               fields of the http.Transport literal, and the server timeouts' defaulting

import (
	"fmt"
	"go/ast"
	"go/parser"
	"go/token"
	"os"
	"path/filepath"
	"sort"
	"strings"
)

func goFiles(repo string) ([]string, error) {
	var out []string
	for _, root := range []string{"internal", "cmd"} {
		err := filepath.Walk(filepath.Join(repo, root), func(p string, info os.FileInfo, err error) error {
			if err != nil {
				return err
			}
			if !info.IsDir() && strings.HasSuffix(p, ".go") && !strings.HasSuffix(p, "_test.go") {
				out = append(out, p)
			}
			return nil
		})
		if err != nil {
			return nil, err
		}
	}
	sort.Strings(out)
	return out, nil
}

func isSel(e ast.Expr, x, sel string) bool {
	s, ok := e.(*ast.SelectorExpr)
	if !ok || s.Sel.Name != sel {
		return false
	}
	id, ok := s.X.(*ast.Ident)
	return ok && id.Name == x
}

type wrapperInfo struct {
	pkg, name              string
	flush, hijack, unwrap  bool // declared AND delegating
	declFlush, declHijack  bool
}

// delegates: the method body contains a type assertion <recv>.ResponseWriter.(http.<iface>) and a call of <method> on something
func delegates(fd *ast.FuncDecl, iface, method string) bool {
	assertOK, callOK := false, false
	ast.Inspect(fd.Body, func(n ast.Node) bool {
		switch x := n.(type) {
		case *ast.TypeAssertExpr:
			if s, ok := x.X.(*ast.SelectorExpr); ok && s.Sel.Name == "ResponseWriter" && x.Type != nil && isSel(x.Type, "http", iface) {
				assertOK = true
			}
		case *ast.CallExpr:
			if s, ok := x.Fun.(*ast.SelectorExpr); ok && s.Sel.Name == method {
				callOK = true
			}
		}
		return true
	})
	return assertOK && callOK
}

func init() {
	genWrappers = func(repo string) (string, error) {
		files, err := goFiles(repo)
		if err != nil {
			return "", err
		}
		fset := token.NewFileSet()
		infos := map[string]*wrapperInfo{}
		var order []string
		var parsed []*ast.File
		for _, f := range files {
			af, err := parser.ParseFile(fset, f, nil, 0)
			if err != nil {
				return "", err
			}
			parsed = append(parsed, af)
			for _, d := range af.Decls {
				gd, ok := d.(*ast.GenDecl)
				if !ok || gd.Tok != token.TYPE {
					continue
				}
				for _, sp := range gd.Specs {
					ts := sp.(*ast.TypeSpec)
					st, ok := ts.Type.(*ast.StructType)
					if !ok {
						continue
					}
					for _, fld := range st.Fields.List {
						if len(fld.Names) == 0 && isSel(fld.Type, "http", "ResponseWriter") {
							key := af.Name.Name + "." + ts.Name.Name
							infos[key] = &wrapperInfo{pkg: af.Name.Name, name: ts.Name.Name}
							order = append(order, key)
						}
					}
				}
			}
		}
		for _, af := range parsed {
			for _, d := range af.Decls {
				fd, ok := d.(*ast.FuncDecl)
				if !ok || fd.Recv == nil || len(fd.Recv.List) != 1 || fd.Body == nil {
					continue
				}
				rt := fd.Recv.List[0].Type
				if s, ok := rt.(*ast.StarExpr); ok {
					rt = s.X
				}
				id, ok := rt.(*ast.Ident)
				if !ok {
					continue
				}
				wi := infos[af.Name.Name+"."+id.Name]
				if wi == nil {
					continue
				}
				switch fd.Name.Name {
				case "Flush":
					wi.declFlush = true
					wi.flush = delegates(fd, "Flusher", "Flush")
				case "Hijack":
					wi.declHijack = true
					wi.hijack = delegates(fd, "Hijacker", "Hijack")
				case "Unwrap":
					// func (w *T) Unwrap() http.ResponseWriter { return w.ResponseWriter }
					if len(fd.Body.List) == 1 {
						if r, ok := fd.Body.List[0].(*ast.ReturnStmt); ok && len(r.Results) == 1 {
							if s, ok := r.Results[0].(*ast.SelectorExpr); ok && s.Sel.Name == "ResponseWriter" {
								wi.unwrap = true
							}
						}
					}
				}
			}
		}
		if len(order) == 0 {
			return "", fmt.Errorf("no type embedding http.ResponseWriter found")
		}
		sort.Strings(order)
		var o strings.Builder
		o.WriteString("From Coq Require Import String List Bool.\nImport ListNotations.\nOpen Scope string_scope.\n\n")
		o.WriteString("(* one entry per struct type that embeds http.ResponseWriter: does it forward Flush / Hijack to the writer it wraps, does it offer Unwrap *)\n")
		o.WriteString("Record wrapper := mkWrapper { wr_name : string; wr_flush : bool; wr_hijack : bool; wr_unwrap : bool }.\n")
		o.WriteString("Definition wrappers : list wrapper := [\n")
		for i, k := range order {
			wi := infos[k]
			sep := ";"
			if i == len(order)-1 {
				sep = ""
			}
			fmt.Fprintf(&o, "  mkWrapper \"%s\" %v %v %v%s\n", k, wi.flush, wi.hijack, wi.unwrap, sep)
		}
		o.WriteString("].\n")
		return o.String(), nil
	}

	genProxyFacts = func(repo string) (string, error) {
		fset := token.NewFileSet()
		af, err := parser.ParseFile(fset, filepath.Join(repo, "internal/loadbalancer/loadbalancer.go"), nil, 0)
		if err != nil {
			return "", err
		}
		var add *ast.FuncDecl
		for _, d := range af.Decls {
			if fd, ok := d.(*ast.FuncDecl); ok && fd.Name.Name == "AddBackend" && fd.Recv != nil {
				add = fd
			}
		}
		if add == nil {
			return "", fmt.Errorf("AddBackend not found")
		}
		proxyVar := ""
		var fieldsSet []string
		transport := map[string]string{}
		ast.Inspect(add.Body, func(n ast.Node) bool {
			switch x := n.(type) {
			case *ast.AssignStmt:
				if len(x.Lhs) == 1 && len(x.Rhs) == 1 {
					if call, ok := x.Rhs[0].(*ast.CallExpr); ok && isSel(call.Fun, "httputil", "NewSingleHostReverseProxy") {
						if id, ok := x.Lhs[0].(*ast.Ident); ok {
							proxyVar = id.Name
						}
					}
					if s, ok := x.Lhs[0].(*ast.SelectorExpr); ok {
						if id, ok := s.X.(*ast.Ident); ok && proxyVar != "" && id.Name == proxyVar {
							fieldsSet = append(fieldsSet, s.Sel.Name)
						}
					}
				}
			case *ast.CompositeLit:
				if isSel(x.Type, "http", "Transport") {
					for _, el := range x.Elts {
						kv, ok := el.(*ast.KeyValueExpr)
						if !ok {
							continue
						}
						k, ok := kv.Key.(*ast.Ident)
						if !ok {
							continue
						}
						if v, ok := kv.Value.(*ast.Ident); ok && (v.Name == "true" || v.Name == "false") {
							transport[k.Name] = v.Name
						}
					}
				}
			}
			return true
		})
		if proxyVar == "" {
			return "", fmt.Errorf("AddBackend: httputil.NewSingleHostReverseProxy call not found (the proxy construction left the subset)")
		}
		// any other use of the proxy variable than field assignment / storing it in the Backend is outside the subset
		sort.Strings(fieldsSet)
		var o strings.Builder
		o.WriteString("From Coq Require Import String List Bool.\nImport ListNotations.\nOpen Scope string_scope.\n\n")
		o.WriteString("(* fields assigned on the per-backend httputil.ReverseProxy after NewSingleHostReverseProxy (AddBackend) *)\n")
		q := make([]string, len(fieldsSet))
		for i, f := range fieldsSet {
			q[i] = "\"" + f + "\""
		}
		fmt.Fprintf(&o, "Definition proxy_fields_set : list string := [%s].\n", strings.Join(q, "; "))
		dc, ok := transport["DisableCompression"]
		if !ok {
			dc = "false" // the zero value
		}
		fmt.Fprintf(&o, "Definition transport_disable_compression : bool := %s.\n", dc)
		var keys []string
		for k := range transport {
			keys = append(keys, k)
		}
		sort.Strings(keys)
		var items []string
		for _, k := range keys {
			items = append(items, fmt.Sprintf("(\"%s\", %s)", k, transport[k]))
		}
		fmt.Fprintf(&o, "Definition transport_bool_fields : list (string * bool) := [%s].\n", strings.Join(items, "; "))
		// cmd/helios buildHandler: the layers put around the balancer, innermost first
		sf, err := parser.ParseFile(fset, filepath.Join(repo, "cmd/helios/server.go"), nil, 0)
		if err != nil {
			return "", err
		}
		var layers []string
		found := false
		for _, d := range sf.Decls {
			fd, ok := d.(*ast.FuncDecl)
			if !ok || fd.Name.Name != "buildHandler" {
				continue
			}
			found = true
			ast.Inspect(fd.Body, func(n ast.Node) bool {
				as, ok := n.(*ast.AssignStmt)
				if !ok {
					return true
				}
				for i, l := range as.Lhs {
					id, ok := l.(*ast.Ident)
					if !ok || (id.Name != "handler" && id.Name != "chained") {
						continue
					}
					var rhs ast.Expr
					if len(as.Rhs) == len(as.Lhs) {
						rhs = as.Rhs[i]
					} else if len(as.Rhs) == 1 {
						rhs = as.Rhs[0]
					}
					for {
						call, ok := rhs.(*ast.CallExpr)
						if !ok {
							break
						}
						if inner, ok := call.Fun.(*ast.CallExpr); ok { // f(cfg)(handler)
							rhs = inner
							continue
						}
						if s, ok := call.Fun.(*ast.SelectorExpr); ok {
							if x, ok := s.X.(*ast.Ident); ok {
								layers = append(layers, x.Name+"."+s.Sel.Name)
							}
						} else if f, ok := call.Fun.(*ast.Ident); ok {
							layers = append(layers, f.Name)
						}
						break
					}
				}
				return true
			})
		}
		if !found {
			return "", fmt.Errorf("cmd/helios/server.go: buildHandler not found")
		}
		ql := make([]string, len(layers))
		for i, l := range layers {
			ql[i] = "\"" + l + "\""
		}
		fmt.Fprintf(&o, "(* cmd/helios buildHandler: calls whose result becomes the handler, innermost first *)\nDefinition handler_layers : list string := [%s].\n", strings.Join(ql, "; "))
		return o.String(), nil
	}
}
