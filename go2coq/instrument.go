package main

// Instrumenter for schedule replay: copies a source file of the CURRENT tree and inserts
//     verifYield("<Func>:<Lock|RLock>")
// immediately before every statement that acquires a sync.Mutex / sync.RWMutex (X.Lock() / X.RLock()).  The copy is
// substituted for the file at build time through -overlay; nothing is written under the repository.  Labels carry the
// function name and the kind of acquisition only (no line numbers), so edits that do not change the locking structure of
// a function leave them unchanged.

import (
	"bytes"
	"fmt"
	"go/ast"
	"go/parser"
	"go/printer"
	"go/token"
	"os"
)

func instrumentFile(src, dst string) error {
	fset := token.NewFileSet()
	af, err := parser.ParseFile(fset, src, nil, 0) // comments are dropped: inserted statements have no position and would attract them
	if err != nil {
		return err
	}
	for _, d := range af.Decls {
		fd, ok := d.(*ast.FuncDecl)
		if !ok || fd.Body == nil {
			continue
		}
		name := fd.Name.Name
		instrumentBlock(fd.Body, name)
	}
	var buf bytes.Buffer
	if err := printer.Fprint(&buf, fset, af); err != nil {
		return err
	}
	return os.WriteFile(dst, buf.Bytes(), 0o644)
}

func lockKind(s ast.Stmt) string {
	es, ok := s.(*ast.ExprStmt)
	if !ok {
		return ""
	}
	call, ok := es.X.(*ast.CallExpr)
	if !ok || len(call.Args) != 0 {
		return ""
	}
	sel, ok := call.Fun.(*ast.SelectorExpr)
	if !ok || (sel.Sel.Name != "Lock" && sel.Sel.Name != "RLock") {
		return ""
	}
	return sel.Sel.Name
}

func yieldStmt(label string) ast.Stmt {
	return &ast.ExprStmt{X: &ast.CallExpr{Fun: ast.NewIdent("verifYield"), Args: []ast.Expr{&ast.BasicLit{Kind: token.STRING, Value: fmt.Sprintf("%q", label)}}}}
}

func instrumentBlock(b *ast.BlockStmt, fn string) {
	var out []ast.Stmt
	for _, s := range b.List {
		if k := lockKind(s); k != "" {
			out = append(out, yieldStmt(fn+":"+k))
		}
		instrumentStmt(s, fn)
		out = append(out, s)
	}
	b.List = out
}

func instrumentStmt(s ast.Stmt, fn string) {
	switch x := s.(type) {
	case *ast.BlockStmt:
		instrumentBlock(x, fn)
	case *ast.IfStmt:
		instrumentBlock(x.Body, fn)
		if x.Else != nil {
			instrumentStmt(x.Else, fn)
		}
	case *ast.ForStmt:
		instrumentBlock(x.Body, fn)
	case *ast.RangeStmt:
		instrumentBlock(x.Body, fn)
	case *ast.SwitchStmt:
		for _, c := range x.Body.List {
			if cc, ok := c.(*ast.CaseClause); ok {
				cc.Body = instrumentList(cc.Body, fn)
			}
		}
	case *ast.SelectStmt:
		for _, c := range x.Body.List {
			if cc, ok := c.(*ast.CommClause); ok {
				cc.Body = instrumentList(cc.Body, fn)
			}
		}
	case *ast.ExprStmt:
		// function literals (callbacks, goroutine bodies)
		ast.Inspect(x, func(n ast.Node) bool {
			if fl, ok := n.(*ast.FuncLit); ok {
				instrumentBlock(fl.Body, fn+".func")
				return false
			}
			return true
		})
	case *ast.GoStmt:
		if fl, ok := x.Call.Fun.(*ast.FuncLit); ok {
			instrumentBlock(fl.Body, fn+".func")
		}
	case *ast.DeferStmt:
		if fl, ok := x.Call.Fun.(*ast.FuncLit); ok {
			instrumentBlock(fl.Body, fn+".func")
		}
	}
}

func instrumentList(list []ast.Stmt, fn string) []ast.Stmt {
	b := &ast.BlockStmt{List: list}
	instrumentBlock(b, fn)
	return b.List
}
