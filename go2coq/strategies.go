package main

// Translator for the selection loops of the counting strategies (round_robin.go, least_connections.go,
// weighted_round_robin.go): NextBackend becomes a Gallina function over the model's pool
//     sg_<kind>_next : list backend -> Z (* rotation counter *) -> option nat (* index of the pick *) * (list backend * Z)
// What is derived from the source is the control flow: loops (over the slice, or counted, with early return and continue),
// conditions, accumulators, which element a pointer variable points to (pointers into the slice are indices), which
// element fields are updated.  What is configuration of the translator (trusted, below): how the Go accessors of one slice
// element map to the fields of Model.Strategy.backend.
//   x.Weight, x.backend.Weight                         -> bweight
//   x.currentWeight                                    -> bcw (read and written)
//   x.markedHealthy(), x.backend.markedHealthy()       -> bflag
//   x.GetActiveConnections(), x.backend.Get...()       -> bactive
// Locks are dropped (one call = one atomic step; the sched suite covers the interleavings).

import (
	"fmt"
	"go/ast"
	"go/parser"
	"go/token"
	"path/filepath"
	"strings"
)

type stTr struct {
	fset   *token.FileSet
	recv   string
	scal   map[string]bool   // scalar locals
	ptr    map[string]bool   // pointer locals: option nat
	elem   map[string]string // range element variable -> Coq nat expression of its index
	inLoop []string          // stack of loop-state tuples (Coq patterns)
	// inside a loop body the state handed to the next iteration is the tuple that was live at loop entry
	stateOverride string
	order         *[]string // locals in the order of their declaration: the layout of a loop state does not depend on their names
}

func (t *stTr) declare(name string) {
	for _, n := range *t.order {
		if n == name {
			return
		}
	}
	*t.order = append(*t.order, name)
}

func (t *stTr) pos(n ast.Node) string { return t.fset.Position(n.Pos()).String() }

func (t *stTr) isSlice(e ast.Expr) bool {
	sel, ok := e.(*ast.SelectorExpr)
	if !ok || sel.Sel.Name != "backends" {
		return false
	}
	id, ok := sel.X.(*ast.Ident)
	return ok && id.Name == t.recv
}

// target of a field access: the Coq term of the element (through a range variable or a pointer local)
func (t *stTr) element(e ast.Expr) (string, bool) {
	// strip `.backend`
	if sel, ok := e.(*ast.SelectorExpr); ok && sel.Sel.Name == "backend" {
		e = sel.X
	}
	id, ok := e.(*ast.Ident)
	if !ok {
		return "", false
	}
	if ix, ok := t.elem[id.Name]; ok {
		return fmt.Sprintf("(nth %s pool dB)", ix), true
	}
	if t.ptr[id.Name] {
		return fmt.Sprintf("(pget v_%s pool)", id.Name), true
	}
	return "", false
}

// index (option nat) a pointer-valued expression denotes
func (t *stTr) pointer(e ast.Expr) (string, bool) {
	if sel, ok := e.(*ast.SelectorExpr); ok && sel.Sel.Name == "backend" {
		e = sel.X
	}
	id, ok := e.(*ast.Ident)
	if !ok {
		return "", false
	}
	if id.Name == "nil" {
		return "None", true
	}
	if ix, ok := t.elem[id.Name]; ok {
		return "(Some " + ix + ")", true
	}
	if t.ptr[id.Name] {
		return "v_" + id.Name, true
	}
	return "", false
}

func (t *stTr) expr(e ast.Expr) (string, error) {
	switch x := e.(type) {
	case *ast.ParenExpr:
		return t.expr(x.X)
	case *ast.BasicLit:
		if x.Kind == token.INT {
			return x.Value, nil
		}
	case *ast.Ident:
		if t.scal[x.Name] {
			return "v_" + x.Name, nil
		}
		if x.Name == "true" || x.Name == "false" {
			return x.Name, nil
		}
	case *ast.SelectorExpr:
		if id, ok := x.X.(*ast.Ident); ok && id.Name == "math" && x.Sel.Name == "MaxInt32" {
			return "2147483647", nil
		}
		if el, ok := t.element(x.X); ok {
			switch x.Sel.Name {
			case "Weight":
				return "(bweight " + el + ")", nil
			case "currentWeight":
				return "(bcw " + el + ")", nil
			}
		}
	case *ast.UnaryExpr:
		if x.Op == token.NOT {
			a, err := t.expr(x.X)
			if err != nil {
				return "", err
			}
			return "(negb " + a + ")", nil
		}
	case *ast.BinaryExpr:
		// nil comparisons of pointers
		if x.Op == token.EQL || x.Op == token.NEQ {
			if id, ok := x.Y.(*ast.Ident); ok && id.Name == "nil" {
				if p, ok := t.pointer(x.X); ok {
					isNil := "(match " + p + " with None => true | Some _ => false end)"
					if x.Op == token.NEQ {
						return "(negb " + isNil + ")", nil
					}
					return isNil, nil
				}
			}
		}
		a, err := t.expr(x.X)
		if err != nil {
			return "", err
		}
		b, err := t.expr(x.Y)
		if err != nil {
			return "", err
		}
		switch x.Op {
		case token.ADD:
			return "(" + a + " + " + b + ")", nil
		case token.SUB:
			return "(" + a + " - " + b + ")", nil
		case token.REM:
			return "(" + a + " mod " + b + ")", nil
		case token.EQL:
			return "(Z.eqb " + a + " " + b + ")", nil
		case token.NEQ:
			return "(negb (Z.eqb " + a + " " + b + "))", nil
		case token.LSS:
			return "(" + a + " <? " + b + ")", nil
		case token.LEQ:
			return "(" + a + " <=? " + b + ")", nil
		case token.GTR:
			return "(" + b + " <? " + a + ")", nil
		case token.GEQ:
			return "(" + b + " <=? " + a + ")", nil
		case token.LOR:
			return "(" + a + " || " + b + ")", nil
		case token.LAND:
			return "(" + a + " && " + b + ")", nil
		}
	case *ast.CallExpr:
		// conversions
		if id, ok := x.Fun.(*ast.Ident); ok && len(x.Args) == 1 {
			switch id.Name {
			case "int", "int32", "int64", "uint32", "uint64", "uint":
				return t.expr(x.Args[0])
			case "len":
				if t.isSlice(x.Args[0]) {
					return "(zlen pool)", nil
				}
			}
		}
		if sel, ok := x.Fun.(*ast.SelectorExpr); ok && len(x.Args) == 0 {
			if el, ok := t.element(sel.X); ok {
				switch sel.Sel.Name {
				case "markedHealthy":
					return "(bflag " + el + ")", nil
				case "GetActiveConnections":
					return "(bactive " + el + ")", nil
				}
			}
		}
	}
	return "", fmt.Errorf("%s: expression outside the subset", t.pos(e))
}

// the loop state that is live: pool, ctr and every local declared so far, in a fixed order
func (t *stTr) state() string {
	if t.stateOverride != "" {
		return t.stateOverride
	}
	var names []string
	for _, n := range *t.order {
		if t.scal[n] || t.ptr[n] {
			names = append(names, "v_"+n)
		}
	}
	return "(pool, ctr, (" + strings.Join(append(names, "tt"), ", ") + "))"
}

func (t *stTr) ret(val string) string {
	r := "(" + val + ", (pool, ctr))"
	if len(t.inLoop) > 0 {
		return "inl " + r
	}
	return r
}

func copySet(m map[string]bool) map[string]bool {
	c := map[string]bool{}
	for k, v := range m {
		c[k] = v
	}
	return c
}

// stmts translates a statement list followed by the continuation rest; at the end of everything a loop body continues
// with the next iteration, a function body returns nil
func (t *stTr) stmts(list []ast.Stmt, rest [][]ast.Stmt, depth int) (string, error) {
	ind := strings.Repeat("  ", depth)
	if len(list) == 0 {
		if len(rest) == 0 {
			if len(t.inLoop) > 0 {
				return "inr " + t.state(), nil
			}
			return t.ret("None"), nil
		}
		return t.stmts(rest[0], rest[1:], depth)
	}
	s, tail := list[0], list[1:]
	cont := func() (string, error) { return t.stmts(tail, rest, depth) }
	switch x := s.(type) {
	case *ast.DeferStmt:
		if isLockCall(x.Call) {
			return cont()
		}
	case *ast.ExprStmt:
		if isLockCall(x.X) {
			return cont()
		}
	case *ast.BranchStmt:
		if x.Tok == token.CONTINUE && len(t.inLoop) > 0 {
			return "inr " + t.state(), nil
		}
	case *ast.ReturnStmt:
		if len(x.Results) == 1 {
			if p, ok := t.pointer(x.Results[0]); ok {
				return t.ret(p), nil
			}
		}
	case *ast.DeclStmt:
		// var p *T
		if gd, ok := x.Decl.(*ast.GenDecl); ok && gd.Tok == token.VAR {
			var lets []string
			for _, sp := range gd.Specs {
				vs := sp.(*ast.ValueSpec)
				if _, isPtr := vs.Type.(*ast.StarExpr); isPtr && len(vs.Values) == 0 {
					for _, n := range vs.Names {
						t.ptr[n.Name] = true
						t.declare(n.Name)
						lets = append(lets, fmt.Sprintf("let v_%s : option nat := None in", n.Name))
					}
					continue
				}
				return "", fmt.Errorf("%s: declaration outside the subset", t.pos(s))
			}
			k, err := cont()
			if err != nil {
				return "", err
			}
			return strings.Join(lets, "\n"+ind) + "\n" + ind + k, nil
		}
	case *ast.IncDecStmt:
	case *ast.AssignStmt:
		if len(x.Lhs) == 1 && len(x.Rhs) == 1 {
			// element := recv.backends[atomic.AddUint64(&recv.current, 1) % n]
			if id, ok := x.Lhs[0].(*ast.Ident); ok && x.Tok == token.DEFINE {
				if ie, ok := x.Rhs[0].(*ast.IndexExpr); ok && t.isSlice(ie.X) {
					if be, ok := ie.Index.(*ast.BinaryExpr); ok && be.Op == token.REM {
						if c, ok := be.X.(*ast.CallExpr); ok {
							if sel, ok := c.Fun.(*ast.SelectorExpr); ok && sel.Sel.Name == "AddUint64" && len(c.Args) == 2 {
								if pid, ok := sel.X.(*ast.Ident); ok && pid.Name == "atomic" {
									d, err := t.expr(c.Args[1])
									if err != nil {
										return "", err
									}
									m, err := t.expr(be.Y)
									if err != nil {
										return "", err
									}
									t.ptr[id.Name] = true
									t.declare(id.Name)
									k, err := cont()
									if err != nil {
										return "", err
									}
									return fmt.Sprintf("let ctr := wrap_u64 (ctr + %s) in\n%slet v_%s : option nat := Some (Z.to_nat (ctr mod %s)) in\n%s%s", d, ind, id.Name, m, ind, k), nil
								}
							}
						}
					}
				}
			}
			// pointer := element / pointer
			if id, ok := x.Lhs[0].(*ast.Ident); ok {
				if p, okp := t.pointer(x.Rhs[0]); okp && (t.ptr[id.Name] || x.Tok == token.DEFINE) {
					t.ptr[id.Name] = true
					t.declare(id.Name)
					k, err := cont()
					if err != nil {
						return "", err
					}
					return fmt.Sprintf("let v_%s : option nat := %s in\n%s%s", id.Name, p, ind, k), nil
				}
				// scalar := expr
				v, err := t.expr(x.Rhs[0])
				if err != nil {
					return "", err
				}
				cur := "v_" + id.Name
				switch x.Tok {
				case token.DEFINE, token.ASSIGN:
				case token.ADD_ASSIGN:
					v = "(" + cur + " + " + v + ")"
				case token.SUB_ASSIGN:
					v = "(" + cur + " - " + v + ")"
				default:
					return "", fmt.Errorf("%s: assignment operator outside the subset", t.pos(s))
				}
				if x.Tok != token.DEFINE && !t.scal[id.Name] {
					return "", fmt.Errorf("%s: assignment to an unknown variable", t.pos(s))
				}
				t.scal[id.Name] = true
				t.declare(id.Name)
				k, err := cont()
				if err != nil {
					return "", err
				}
				return fmt.Sprintf("let %s := %s in\n%s%s", cur, v, ind, k), nil
			}
			// x.currentWeight op= expr through a range variable or a pointer
			if sel, ok := x.Lhs[0].(*ast.SelectorExpr); ok && sel.Sel.Name == "currentWeight" {
				v, err := t.expr(x.Rhs[0])
				if err != nil {
					return "", err
				}
				el, okE := t.element(sel.X)
				if !okE {
					return "", fmt.Errorf("%s: update of an unknown object", t.pos(s))
				}
				switch x.Tok {
				case token.ASSIGN:
				case token.ADD_ASSIGN:
					v = "(bcw " + el + " + " + v + ")"
				case token.SUB_ASSIGN:
					v = "(bcw " + el + " - " + v + ")"
				default:
					return "", fmt.Errorf("%s: assignment operator outside the subset", t.pos(s))
				}
				var upd string
				id := sel.X.(*ast.Ident)
				if ix, ok := t.elem[id.Name]; ok {
					upd = fmt.Sprintf("let pool := upd_nth %s (set_cw %s) pool in", ix, v)
				} else {
					upd = fmt.Sprintf("let pool := match v_%s with Some j => upd_nth j (set_cw %s) pool | None => pool end in", id.Name, v)
				}
				k, err := cont()
				if err != nil {
					return "", err
				}
				return upd + "\n" + ind + k, nil
			}
		}
	case *ast.IfStmt:
		if x.Init == nil {
			c, err := t.expr(x.Cond)
			if err != nil {
				return "", err
			}
			sS, sP := copySet(t.scal), copySet(t.ptr)
			a, err := t.stmts(x.Body.List, append([][]ast.Stmt{tail}, rest...), depth+1)
			if err != nil {
				return "", err
			}
			t.scal, t.ptr = copySet(sS), copySet(sP)
			var els []ast.Stmt
			switch e := x.Else.(type) {
			case nil:
			case *ast.BlockStmt:
				els = e.List
			default:
				return "", fmt.Errorf("%s: else form outside the subset", t.pos(s))
			}
			b, err := t.stmts(els, append([][]ast.Stmt{tail}, rest...), depth+1)
			if err != nil {
				return "", err
			}
			t.scal, t.ptr = sS, sP
			return fmt.Sprintf("if %s then\n%s  %s\n%selse\n%s  %s", c, ind, a, ind, ind, b), nil
		}
	case *ast.RangeStmt:
		// for _, e := range recv.backends { ... }
		if t.isSlice(x.X) && x.Tok == token.DEFINE {
			if v, ok := x.Value.(*ast.Ident); ok {
				return t.loop(v.Name, "", "(seq 0 (length pool))", x.Body.List, tail, rest, depth)
			}
		}
	case *ast.ForStmt:
		// for i := T(0); i < n; i++ { ... }
		if as, ok := x.Init.(*ast.AssignStmt); ok && len(as.Lhs) == 1 {
			if iv, ok := as.Lhs[0].(*ast.Ident); ok {
				if c, ok := x.Cond.(*ast.BinaryExpr); ok && c.Op == token.LSS {
					if ci, ok := c.X.(*ast.Ident); ok && ci.Name == iv.Name {
						if inc, ok := x.Post.(*ast.IncDecStmt); ok && inc.Tok == token.INC {
							lo, err := t.expr(as.Rhs[0])
							if err != nil {
								return "", err
							}
							hi, err := t.expr(c.Y)
							if err != nil {
								return "", err
							}
							if lo != "0" {
								return "", fmt.Errorf("%s: counted loop not starting at 0", t.pos(s))
							}
							return t.loop("", iv.Name, "(seq 0 (Z.to_nat "+hi+"))", x.Body.List, tail, rest, depth)
						}
					}
				}
			}
		}
	}
	return "", fmt.Errorf("%s: statement outside the subset", t.pos(s))
}

// loop: the body runs once per index with the live state; `return` leaves the function, `continue` / the end of the body go
// on with the next index; after the last index the statements after the loop run with the final state
func (t *stTr) loop(elemVar, idxVar, indices string, body, tail []ast.Stmt, rest [][]ast.Stmt, depth int) (string, error) {
	ind := strings.Repeat("  ", depth)
	st := t.state()
	savedElem := t.elem
	t.elem = map[string]string{}
	for k, v := range savedElem {
		t.elem[k] = v
	}
	if elemVar != "" {
		t.elem[elemVar] = "i"
	}
	sS, sP := copySet(t.scal), copySet(t.ptr)
	if idxVar != "" {
		t.scal[idxVar] = true
		t.declare(idxVar)
	}
	t.inLoop = append(t.inLoop, st)
	// locals declared inside the body do not survive an iteration: the state tuple is the one live at loop entry
	b, err := t.loopBody(body, st, depth+2)
	t.inLoop = t.inLoop[:len(t.inLoop)-1]
	t.scal, t.ptr, t.elem = sS, sP, savedElem
	if err != nil {
		return "", err
	}
	after, err := t.stmts(tail, rest, depth+1)
	if err != nil {
		return "", err
	}
	bind := ""
	if idxVar != "" {
		bind = fmt.Sprintf("let v_%s := Z.of_nat i in ", idxVar)
	}
	exit := "r"
	if len(t.inLoop) > 0 {
		exit = "inl r"
	}
	return fmt.Sprintf("match loop_idx %s %s (fun i st => let '%s := st in %s\n%s    %s) with\n%s| inl r => %s\n%s| inr st => let '%s := st in\n%s  %s\n%send",
		indices, st, st, bind, ind, b, ind, exit, ind, st, ind, after, ind), nil
}

// loopBody: statements of one iteration; falling off the end continues with the state restricted to the entry tuple
func (t *stTr) loopBody(body []ast.Stmt, entry string, depth int) (string, error) {
	// the end of the body and `continue` must hand back exactly the entry tuple (its variables, possibly rebound)
	saved := t.stateOverride
	t.stateOverride = entry
	defer func() { t.stateOverride = saved }()
	return t.stmts(body, nil, depth)
}

func genStrategies(repo string) (string, error) {
	var b strings.Builder
	b.WriteString("(* source: internal/loadbalancer/{round_robin,least_connections,weighted_round_robin}.go, NextBackend of each strategy as a function\n")
	b.WriteString("   of the pool (Model.Strategy.backend elements in strategy order) and the rotation counter: index of the pick, pool and\n")
	b.WriteString("   counter afterwards.  Pointers into the slice are indices; one call is one atomic step. *)\n")
	b.WriteString("From Helios Require Import Base.Prelude Base.Wrap Model.Hash Model.Strategy.\n\n")
	b.WriteString("Definition dB : backend := mkB 0 0 0 false 0 0 0.\n")
	b.WriteString("Fixpoint upd_nth {A} (i : nat) (f : A -> A) (l : list A) : list A :=\n  match l, i with [], _ => [] | x :: t, O => f x :: t | x :: t, S k => x :: upd_nth k f t end.\n")
	b.WriteString("Definition pget (p : option nat) (pool : list backend) : backend := match p with Some j => nth j pool dB | None => dB end.\n")
	b.WriteString("Fixpoint loop_idx {S R} (idx : list nat) (st : S) (body : nat -> S -> R + S) : R + S :=\n  match idx with [] => inr st | i :: t => match body i st with inl r => inl r | inr st' => loop_idx t st' body end end.\n\n")
	for _, tg := range []struct{ file, typ, name string }{
		{"internal/loadbalancer/round_robin.go", "RoundRobinStrategy", "sg_rr_next"},
		{"internal/loadbalancer/least_connections.go", "LeastConnectionsStrategy", "sg_lc_next"},
		{"internal/loadbalancer/weighted_round_robin.go", "WeightedRoundRobinStrategy", "sg_wrr_next"},
	} {
		fset := token.NewFileSet()
		f, err := parser.ParseFile(fset, filepath.Join(repo, tg.file), nil, 0)
		if err != nil {
			return "", err
		}
		var fd *ast.FuncDecl
		for _, d := range f.Decls {
			if x, ok := d.(*ast.FuncDecl); ok && x.Name.Name == "NextBackend" && x.Recv != nil && len(x.Recv.List) == 1 {
				rt := x.Recv.List[0].Type
				if st, ok := rt.(*ast.StarExpr); ok {
					rt = st.X
				}
				if id, ok := rt.(*ast.Ident); ok && id.Name == tg.typ && len(x.Recv.List[0].Names) == 1 {
					fd = x
				}
			}
		}
		if fd == nil {
			return "", fmt.Errorf("%s: (*%s).NextBackend not found", tg.file, tg.typ)
		}
		t := &stTr{fset: fset, recv: fd.Recv.List[0].Names[0].Name, scal: map[string]bool{}, ptr: map[string]bool{}, elem: map[string]string{}, order: &[]string{}}
		body, err := t.stmts(fd.Body.List, nil, 1)
		if err != nil {
			return "", fmt.Errorf("%s: %v", tg.typ, err)
		}
		fmt.Fprintf(&b, "(* %s, NextBackend of %s *)\nDefinition %s (pool : list backend) (ctr : Z) : option nat * (list backend * Z) :=\n  %s.\n\n", tg.file, tg.typ, tg.name, body)
	}
	return b.String(), nil
}
