package main

// Translator for internal/config/config.go: the Config record tree and every validate* method as a
// Gallina boolean function (true = accepted).  Accepted subset (anything else is reported and breaks the tie):
//   types       struct of int / string / bool / named struct / []named struct / []string ; other field types are listed as opaque
//   statements  if <cond> { return <error> } ; if <cond> { <stmts> } ; if err := c.m(); err != nil { return err } ;
//               for _, x := range <selector> { <stmts> } ; name := map[string]bool{"k": true, ...} ; return nil
//   expressions selectors rooted at the receiver or a range variable, int / string literals, len(x), m[x] for a declared set,
//               == != < <= > >= && || !

import (
	"fmt"
	"go/ast"
	"go/parser"
	"go/token"
	"path/filepath"
	"sort"
	"strconv"
	"strings"
)

type cfgTr struct {
	fset    *token.FileSet
	structs map[string]*ast.StructType
	order   []string
	sets    map[string][]string // local set name -> keys
	env     map[string]string   // variable name -> struct type name
	opaque  []string
}

func (t *cfgTr) pos(n ast.Node) string { return t.fset.Position(n.Pos()).String() }

// coqType returns the Coq type of a field type and whether the field is kept
func (t *cfgTr) coqType(e ast.Expr) (string, bool) {
	switch x := e.(type) {
	case *ast.Ident:
		switch x.Name {
		case "int", "int64":
			return "Z", true
		case "string":
			return "string", true
		case "bool":
			return "bool", true
		}
		if _, ok := t.structs[x.Name]; ok {
			return x.Name, true
		}
	case *ast.ArrayType:
		if x.Len == nil {
			if inner, ok := t.coqType(x.Elt); ok {
				return "(list " + inner + ")", true
			}
		}
	}
	return "", false
}

func (t *cfgTr) fieldType(structName, field string) (ast.Expr, error) {
	st := t.structs[structName]
	if st == nil {
		return nil, fmt.Errorf("unknown struct %s", structName)
	}
	for _, f := range st.Fields.List {
		for _, n := range f.Names {
			if n.Name == field {
				return f.Type, nil
			}
		}
	}
	return nil, fmt.Errorf("struct %s has no field %s", structName, field)
}

// selector translates a selector chain; returns Coq term, Go type expression
func (t *cfgTr) selector(e ast.Expr) (string, ast.Expr, error) {
	switch x := e.(type) {
	case *ast.Ident:
		if tn, ok := t.env[x.Name]; ok {
			return "v_" + x.Name, ast.NewIdent(tn), nil
		}
		return "", nil, fmt.Errorf("%s: identifier %s outside the subset", t.pos(e), x.Name)
	case *ast.SelectorExpr:
		base, bt, err := t.selector(x.X)
		if err != nil {
			return "", nil, err
		}
		id, ok := bt.(*ast.Ident)
		if !ok {
			return "", nil, fmt.Errorf("%s: selector on non-struct", t.pos(e))
		}
		ft, err := t.fieldType(id.Name, x.Sel.Name)
		if err != nil {
			return "", nil, fmt.Errorf("%s: %v", t.pos(e), err)
		}
		return fmt.Sprintf("(%s_%s %s)", id.Name, x.Sel.Name, base), ft, nil
	}
	return "", nil, fmt.Errorf("%s: expression %T outside the subset", t.pos(e), e)
}

func coqString(s string) string { return "\"" + strings.ReplaceAll(s, "\"", "\"\"") + "\"%string" }

// expr translates a boolean / integer / string expression; kind: "bool" "int" "string"
func (t *cfgTr) expr(e ast.Expr) (string, string, error) {
	switch x := e.(type) {
	case *ast.ParenExpr:
		return t.expr(x.X)
	case *ast.BasicLit:
		switch x.Kind {
		case token.INT:
			return "(" + x.Value + ")%Z", "int", nil
		case token.STRING:
			s, err := strconv.Unquote(x.Value)
			if err != nil {
				return "", "", err
			}
			return coqString(s), "string", nil
		}
	case *ast.UnaryExpr:
		if x.Op == token.NOT {
			a, k, err := t.expr(x.X)
			if err != nil || k != "bool" {
				return "", "", fmt.Errorf("%s: ! on non-boolean", t.pos(e))
			}
			return "(negb " + a + ")", "bool", nil
		}
		if x.Op == token.SUB {
			a, k, err := t.expr(x.X)
			if err != nil || k != "int" {
				return "", "", fmt.Errorf("%s: unary minus outside the subset", t.pos(e))
			}
			return "(Z.opp " + a + ")", "int", nil
		}
	case *ast.CallExpr:
		if id, ok := x.Fun.(*ast.Ident); ok && id.Name == "len" && len(x.Args) == 1 {
			a, ty, err := t.selector(x.Args[0])
			if err != nil {
				return "", "", err
			}
			if _, ok := ty.(*ast.ArrayType); ok {
				return "(Z.of_nat (List.length " + a + "))", "int", nil
			}
			if id, ok := ty.(*ast.Ident); ok && id.Name == "string" {
				return "(Z.of_nat (String.length " + a + "))", "int", nil
			}
		}
	case *ast.IndexExpr:
		if id, ok := x.X.(*ast.Ident); ok {
			if keys, ok := t.sets[id.Name]; ok {
				a, k, err := t.expr(x.Index)
				if err != nil || k != "string" {
					return "", "", fmt.Errorf("%s: set lookup with a non-string key", t.pos(e))
				}
				q := make([]string, len(keys))
				for i, s := range keys {
					q[i] = coqString(s)
				}
				return "(List.existsb (String.eqb " + a + ") [" + strings.Join(q, "; ") + "])", "bool", nil
			}
		}
	case *ast.BinaryExpr:
		a, ka, err := t.expr(x.X)
		if err != nil {
			return "", "", err
		}
		b, kb, err := t.expr(x.Y)
		if err != nil {
			return "", "", err
		}
		if ka != kb {
			return "", "", fmt.Errorf("%s: operands of different kinds", t.pos(e))
		}
		switch x.Op {
		case token.LAND:
			return "(andb " + a + " " + b + ")", "bool", nil
		case token.LOR:
			return "(orb " + a + " " + b + ")", "bool", nil
		}
		if ka == "int" {
			switch x.Op {
			case token.EQL:
				return "(Z.eqb " + a + " " + b + ")", "bool", nil
			case token.NEQ:
				return "(negb (Z.eqb " + a + " " + b + "))", "bool", nil
			case token.LSS:
				return "(Z.ltb " + a + " " + b + ")", "bool", nil
			case token.LEQ:
				return "(Z.leb " + a + " " + b + ")", "bool", nil
			case token.GTR:
				return "(Z.ltb " + b + " " + a + ")", "bool", nil
			case token.GEQ:
				return "(Z.leb " + b + " " + a + ")", "bool", nil
			}
		}
		if ka == "string" {
			switch x.Op {
			case token.EQL:
				return "(String.eqb " + a + " " + b + ")", "bool", nil
			case token.NEQ:
				return "(negb (String.eqb " + a + " " + b + "))", "bool", nil
			}
		}
		if ka == "bool" {
			switch x.Op {
			case token.EQL:
				return "(Bool.eqb " + a + " " + b + ")", "bool", nil
			case token.NEQ:
				return "(negb (Bool.eqb " + a + " " + b + "))", "bool", nil
			}
		}
		return "", "", fmt.Errorf("%s: operator %s outside the subset", t.pos(e), x.Op)
	case *ast.SelectorExpr, *ast.Ident:
		if id, ok := e.(*ast.Ident); ok && (id.Name == "true" || id.Name == "false") {
			return id.Name, "bool", nil
		}
		a, ty, err := t.selector(e)
		if err != nil {
			return "", "", err
		}
		if id, ok := ty.(*ast.Ident); ok {
			switch id.Name {
			case "int", "int64":
				return a, "int", nil
			case "string":
				return a, "string", nil
			case "bool":
				return a, "bool", nil
			}
		}
		return "", "", fmt.Errorf("%s: selector of unsupported type", t.pos(e))
	}
	return "", "", fmt.Errorf("%s: expression %T outside the subset", t.pos(e), e)
}

func isReturnErr(b *ast.BlockStmt) bool {
	if len(b.List) != 1 {
		return false
	}
	r, ok := b.List[0].(*ast.ReturnStmt)
	if !ok || len(r.Results) != 1 {
		return false
	}
	if id, ok := r.Results[0].(*ast.Ident); ok && id.Name == "nil" {
		return false
	}
	return true
}

// stmts translates a statement list with continuation k (a Coq boolean term)
func (t *cfgTr) stmts(list []ast.Stmt, k string, depth int) (string, error) {
	if len(list) == 0 {
		return k, nil
	}
	ind := strings.Repeat("  ", depth)
	switch s := list[0].(type) {
	case *ast.ReturnStmt:
		if len(s.Results) == 1 {
			if id, ok := s.Results[0].(*ast.Ident); ok && id.Name == "nil" {
				return "true", nil
			}
			return "false", nil
		}
	case *ast.AssignStmt:
		// name := map[string]bool{...}
		if s.Tok == token.DEFINE && len(s.Lhs) == 1 && len(s.Rhs) == 1 {
			if cl, ok := s.Rhs[0].(*ast.CompositeLit); ok {
				if mt, ok := cl.Type.(*ast.MapType); ok {
					if kt, ok := mt.Key.(*ast.Ident); ok && kt.Name == "string" {
						var keys []string
						for _, el := range cl.Elts {
							kv, ok := el.(*ast.KeyValueExpr)
							if !ok {
								return "", fmt.Errorf("%s: map literal outside the subset", t.pos(s))
							}
							kl, ok := kv.Key.(*ast.BasicLit)
							v, ok2 := kv.Value.(*ast.Ident)
							if !ok || !ok2 || kl.Kind != token.STRING || (v.Name != "true" && v.Name != "false") {
								return "", fmt.Errorf("%s: map literal outside the subset", t.pos(s))
							}
							if v.Name == "true" {
								str, _ := strconv.Unquote(kl.Value)
								keys = append(keys, str)
							}
						}
						t.sets[s.Lhs[0].(*ast.Ident).Name] = keys
						return t.stmts(list[1:], k, depth)
					}
				}
			}
		}
	case *ast.IfStmt:
		if s.Else != nil {
			return "", fmt.Errorf("%s: else outside the subset", t.pos(s))
		}
		rest, err := t.stmts(list[1:], k, depth)
		if err != nil {
			return "", err
		}
		if s.Init != nil {
			// if err := c.method(); err != nil { return err }
			as, ok := s.Init.(*ast.AssignStmt)
			if ok && len(as.Rhs) == 1 {
				if call, ok := as.Rhs[0].(*ast.CallExpr); ok {
					if sel, ok := call.Fun.(*ast.SelectorExpr); ok && len(call.Args) == 0 {
						recv, _, err := t.selector(sel.X)
						if err == nil && isReturnErr(s.Body) {
							return fmt.Sprintf("(if %s %s then %s else false)", sel.Sel.Name, recv, rest), nil
						}
					}
				}
			}
			return "", fmt.Errorf("%s: if-with-init outside the subset", t.pos(s))
		}
		c, kind, err := t.expr(s.Cond)
		if err != nil {
			return "", err
		}
		if kind != "bool" {
			return "", fmt.Errorf("%s: non-boolean condition", t.pos(s))
		}
		if isReturnErr(s.Body) {
			return fmt.Sprintf("\n%s(if %s then false else %s)", ind, c, rest), nil
		}
		kn := fmt.Sprintf("k%d_%d", depth, s.Pos())
		inner, err := t.stmts(s.Body.List, kn, depth+1)
		if err != nil {
			return "", err
		}
		return fmt.Sprintf("\n%s(let %s := %s in if %s then %s else %s)", ind, kn, rest, c, inner, kn), nil
	case *ast.RangeStmt:
		val, ok := s.Value.(*ast.Ident)
		if !ok {
			return "", fmt.Errorf("%s: range without a value variable", t.pos(s))
		}
		coll, ty, err := t.selector(s.X)
		if err != nil {
			return "", err
		}
		at, ok := ty.(*ast.ArrayType)
		if !ok {
			return "", fmt.Errorf("%s: range over a non-slice", t.pos(s))
		}
		et, ok := at.Elt.(*ast.Ident)
		if !ok {
			return "", fmt.Errorf("%s: range over slice of unsupported element type", t.pos(s))
		}
		t.env[val.Name] = et.Name
		body, err := t.stmts(s.Body.List, "true", depth+1)
		if err != nil {
			return "", err
		}
		delete(t.env, val.Name)
		rest, err := t.stmts(list[1:], k, depth)
		if err != nil {
			return "", err
		}
		return fmt.Sprintf("\n%s(if List.forallb (fun v_%s => %s) %s then %s else false)", ind, val.Name, body, coll, rest), nil
	}
	return "", fmt.Errorf("%s: statement %T outside the subset", t.pos(list[0]), list[0])
}

func init() {
	genConfig = func(repo string) (string, error) {
		fset := token.NewFileSet()
		af, err := parser.ParseFile(fset, filepath.Join(repo, "internal/config/config.go"), nil, 0)
		if err != nil {
			return "", err
		}
		t := &cfgTr{fset: fset, structs: map[string]*ast.StructType{}, sets: map[string][]string{}, env: map[string]string{}}
		for _, d := range af.Decls {
			gd, ok := d.(*ast.GenDecl)
			if !ok || gd.Tok != token.TYPE {
				continue
			}
			for _, sp := range gd.Specs {
				ts := sp.(*ast.TypeSpec)
				if st, ok := ts.Type.(*ast.StructType); ok {
					t.structs[ts.Name.Name] = st
					t.order = append(t.order, ts.Name.Name)
				}
			}
		}
		// records in dependency order
		var emitted = map[string]bool{}
		var o strings.Builder
		o.WriteString("From Coq Require Import ZArith String List Bool.\nImport ListNotations.\nOpen Scope Z_scope.\n\n")
		var emit func(name string) error
		emit = func(name string) error {
			if emitted[name] {
				return nil
			}
			emitted[name] = true
			st := t.structs[name]
			var fields []string
			for _, f := range st.Fields.List {
				// dependencies first
				var dep string
				switch x := f.Type.(type) {
				case *ast.Ident:
					dep = x.Name
				case *ast.ArrayType:
					if id, ok := x.Elt.(*ast.Ident); ok {
						dep = id.Name
					}
				}
				if _, ok := t.structs[dep]; ok {
					if err := emit(dep); err != nil {
						return err
					}
				}
				ct, ok := t.coqType(f.Type)
				for _, n := range f.Names {
					if !ok {
						t.opaque = append(t.opaque, name+"."+n.Name)
						continue
					}
					fields = append(fields, fmt.Sprintf("%s_%s : %s", name, n.Name, ct))
				}
			}
			fmt.Fprintf(&o, "Record %s := mk%s { %s }.\n", name, name, strings.Join(fields, "; "))
			return nil
		}
		for _, n := range t.order {
			if err := emit(n); err != nil {
				return "", err
			}
		}
		sort.Strings(t.opaque)
		fmt.Fprintf(&o, "(* fields of a type outside the subset, not represented: %s *)\n\n", strings.Join(t.opaque, ", "))
		// methods on *Config whose name starts with validate / Validate, in source order; Validate last
		var methods []*ast.FuncDecl
		var top *ast.FuncDecl
		for _, d := range af.Decls {
			fd, ok := d.(*ast.FuncDecl)
			if !ok || fd.Recv == nil || fd.Body == nil {
				continue
			}
			if fd.Name.Name == "Validate" {
				top = fd
			} else if strings.HasPrefix(fd.Name.Name, "validate") {
				methods = append(methods, fd)
			}
		}
		if top == nil {
			return "", fmt.Errorf("Config.Validate not found")
		}
		var names []string
		for _, fd := range append(methods, top) {
			recv := fd.Recv.List[0]
			rt := recv.Type
			if s, ok := rt.(*ast.StarExpr); ok {
				rt = s.X
			}
			rid, ok := rt.(*ast.Ident)
			if !ok || len(recv.Names) != 1 {
				return "", fmt.Errorf("%s: receiver outside the subset", t.pos(fd))
			}
			t.env = map[string]string{recv.Names[0].Name: rid.Name}
			t.sets = map[string][]string{}
			body, err := t.stmts(fd.Body.List, "true", 1)
			if err != nil {
				return "", err
			}
			fmt.Fprintf(&o, "Definition %s (v_%s : %s) : bool := %s.\n\n", fd.Name.Name, recv.Names[0].Name, rid.Name, body)
			names = append(names, fd.Name.Name)
		}
		fmt.Fprintf(&o, "(* translated methods: %s *)\n", strings.Join(names, " "))
		return o.String(), nil
	}
}
