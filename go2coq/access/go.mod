module helios.verif/access

go 1.26.0

require golang.org/x/tools v0.50.0

require (
	golang.org/x/mod v0.41.0 // indirect
	golang.org/x/sync v0.23.0 // indirect
)
