// access regenerates coq/Gen/Access.v from the CURRENT Helios source: for every function of the concurrent core
// (loadbalancer, metrics, circuitbreaker, ratelimiter) the accesses to struct fields with the set of mutexes held
// there, and the "acquired while holding" relation between mutexes.  go/packages + go/types resolve every selector,
// so a lock is identified by the struct field that holds it (Backend.Mutex, LoadBalancer.mutex, connPool.mu, ...).
//
// Approximations (part of the trusted base, see DESIGN.md C12):
//   - locksets are computed on the syntax tree: branches are joined by intersection, a loop body is assumed balanced,
//     `defer X.Unlock()` holds X to the end of the function;
//   - a function's entry lockset is the intersection of the locksets at its call sites inside these packages
//     (none for exported functions, goroutine bodies and function literals that are stored or passed on);
//   - interface calls are resolved to every method of that name in the package, calls of func-typed struct fields to
//     the function literals assigned to that field anywhere in the repository;
//   - accesses inside constructors (New*, create*, composite literals) are not shared yet and are skipped;
//   - a lock protects a field only through the object it belongs to: base expressions are not compared.
package main

import (
	"flag"
	"fmt"
	"go/ast"
	"go/token"
	"go/types"
	"os"
	"path/filepath"
	"sort"
	"strings"

	"golang.org/x/tools/go/packages"
)

type lockSet map[string]int // lock key -> mode (0 read, 1 write)

func (l lockSet) clone() lockSet {
	o := lockSet{}
	for k, v := range l {
		o[k] = v
	}
	return o
}
func meet(a, b lockSet) lockSet {
	o := lockSet{}
	for k, v := range a {
		if w, ok := b[k]; ok {
			if w < v {
				v = w
			}
			o[k] = v
		}
	}
	return o
}

type site struct {
	field, fn string
	kind      int // 0 read, 1 write, 2 atomic read, 3 atomic write
	locks     lockSet
	pos       string
}
type callSite struct {
	caller, callee string
	locks          lockSet
}
type acquire struct {
	fn, key string
	mode    int
	held    lockSet
}

type analyzer struct {
	fset     *token.FileSet
	info     map[*ast.File]*types.Info
	pkgOf    map[*ast.File]*packages.Package
	sites    []site
	calls    []callSite
	acqs     []acquire
	funcs    map[string]bool
	exported map[string]bool
	fieldLits map[string][]string // func-typed struct field -> names of function literals assigned to it
	methodsByName map[string][]string
	litCount int
	cur      *types.Info
	curPkg   *packages.Package
}

var targetPkgs = map[string]bool{"loadbalancer": true, "metrics": true, "circuitbreaker": true, "ratelimiter": true}

func isMutex(t types.Type) bool {
	if p, ok := t.(*types.Pointer); ok {
		t = p.Elem()
	}
	n, ok := t.(*types.Named)
	if !ok || n.Obj().Pkg() == nil {
		return false
	}
	return n.Obj().Pkg().Path() == "sync" && (n.Obj().Name() == "Mutex" || n.Obj().Name() == "RWMutex")
}

// fieldKey: "Struct.field" for a selector that resolves to a field of a struct declared in a target package
func (a *analyzer) fieldKey(sel *ast.SelectorExpr) (string, types.Type, bool) {
	s, ok := a.cur.Selections[sel]
	if !ok || s.Kind() != types.FieldVal {
		return "", nil, false
	}
	v, ok := s.Obj().(*types.Var)
	if !ok || !v.IsField() || v.Pkg() == nil || !targetPkgs[v.Pkg().Name()] {
		return "", nil, false
	}
	recv := s.Recv()
	if p, ok := recv.(*types.Pointer); ok {
		recv = p.Elem()
	}
	name := "?"
	if n, ok := recv.(*types.Named); ok {
		name = n.Obj().Name()
	}
	// embedded promotion: find the struct that declares the field
	for i := 0; i < len(s.Index())-1; i++ {
		st, ok := recv.Underlying().(*types.Struct)
		if !ok {
			break
		}
		f := st.Field(s.Index()[i])
		recv = f.Type()
		if p, ok := recv.(*types.Pointer); ok {
			recv = p.Elem()
		}
		if n, ok := recv.(*types.Named); ok {
			name = n.Obj().Name()
		}
	}
	return name + "." + v.Name(), v.Type(), true
}

func (a *analyzer) funcName(fd *ast.FuncDecl) string {
	pkg := a.curPkg.Name
	if fd.Recv != nil && len(fd.Recv.List) == 1 {
		t := fd.Recv.List[0].Type
		if s, ok := t.(*ast.StarExpr); ok {
			t = s.X
		}
		if id, ok := t.(*ast.Ident); ok {
			return pkg + "." + id.Name + "." + fd.Name.Name
		}
	}
	return pkg + "." + fd.Name.Name
}

// calleeNames resolves a call expression to function names inside the target packages
func (a *analyzer) calleeNames(call *ast.CallExpr) []string {
	switch f := call.Fun.(type) {
	case *ast.Ident:
		if obj, ok := a.cur.Uses[f].(*types.Func); ok && obj.Pkg() != nil && targetPkgs[obj.Pkg().Name()] {
			return []string{obj.Pkg().Name() + "." + obj.Name()}
		}
	case *ast.SelectorExpr:
		if s, ok := a.cur.Selections[f]; ok {
			switch s.Kind() {
			case types.MethodVal:
				fn := s.Obj().(*types.Func)
				if fn.Pkg() == nil || !targetPkgs[fn.Pkg().Name()] {
					return nil
				}
				recv := s.Recv()
				if p, ok := recv.(*types.Pointer); ok {
					recv = p.Elem()
				}
				if n, ok := recv.(*types.Named); ok {
					if iface, isIface := n.Underlying().(*types.Interface); isIface {
						// every type of the package that implements the interface
						var out []string
						scope := fn.Pkg().Scope()
						for _, nm := range scope.Names() {
							tn, ok := scope.Lookup(nm).(*types.TypeName)
							if !ok {
								continue
							}
							if _, isI := tn.Type().Underlying().(*types.Interface); isI {
								continue
							}
							if types.Implements(types.NewPointer(tn.Type()), iface) || types.Implements(tn.Type(), iface) {
								out = append(out, fn.Pkg().Name()+"."+tn.Name()+"."+fn.Name())
							}
						}
						return out
					}
					return []string{fn.Pkg().Name() + "." + n.Obj().Name() + "." + fn.Name()}
				}
			case types.FieldVal: // call of a func-typed field: the literals assigned to it
				if key, _, ok := a.fieldKey(f); ok {
					return a.fieldLits[key]
				}
			}
		} else if obj, ok := a.cur.Uses[f.Sel].(*types.Func); ok && obj.Pkg() != nil && targetPkgs[obj.Pkg().Name()] {
			return []string{obj.Pkg().Name() + "." + obj.Name()}
		}
	}
	return nil
}

type walker struct {
	a      *analyzer
	fn     string
	held   lockSet
	skip   bool // constructor: accesses are not shared yet
	dead   bool // after return
	fresh  map[types.Object]bool // local variables that hold an object no other goroutine can reach yet
}

// freshProducers: calls whose result is an object private to the caller (part of the ownership table, see DESIGN.md C12)
var freshProducers = map[string]bool{"metrics.MetricsCollector.GetMetrics": true}

// localTypes: structs whose instances live in one goroutine (one per request)
var localTypes = map[string]bool{"responseWriter": true}

// isFresh: composite literals, new / make, sync.Pool.Get, and the declared producers
func (w *walker) isFresh(e ast.Expr) bool {
	switch x := e.(type) {
	case *ast.CompositeLit:
		return true
	case *ast.UnaryExpr:
		if x.Op == token.AND {
			_, ok := x.X.(*ast.CompositeLit)
			return ok
		}
	case *ast.TypeAssertExpr:
		return w.isFresh(x.X)
	case *ast.CallExpr:
		if id, ok := x.Fun.(*ast.Ident); ok && (id.Name == "new" || id.Name == "make") {
			return true
		}
		if sel, ok := x.Fun.(*ast.SelectorExpr); ok {
			if s, ok := w.a.cur.Selections[sel]; ok && s.Kind() == types.MethodVal {
				fn := s.Obj().(*types.Func)
				if fn.Pkg() != nil && fn.Pkg().Path() == "sync" && fn.Name() == "Get" {
					return true
				}
			}
		}
		for _, c := range w.a.calleeNames(x) {
			if freshProducers[c] {
				return true
			}
		}
	}
	return false
}

// rootFresh: an expression reached through a fresh local (a field, element or range value of a private object)
func (w *walker) rootFresh(e ast.Expr) bool {
	if _, isCall := e.(*ast.CallExpr); isCall {
		return false
	}
	id := rootIdent(e)
	if id == nil || w.fresh == nil {
		return false
	}
	obj := w.a.cur.Uses[id]
	return obj != nil && w.fresh[obj]
}

func rootIdent(e ast.Expr) *ast.Ident {
	for {
		switch x := e.(type) {
		case *ast.Ident:
			return x
		case *ast.SelectorExpr:
			e = x.X
		case *ast.IndexExpr:
			e = x.X
		case *ast.StarExpr:
			e = x.X
		case *ast.ParenExpr:
			e = x.X
		default:
			return nil
		}
	}
}

func (w *walker) record(sel *ast.SelectorExpr, kind int) {
	if w.skip {
		return
	}
	if id := rootIdent(sel.X); id != nil && w.fresh != nil {
		if obj := w.a.cur.Uses[id]; obj != nil && w.fresh[obj] {
			return // the object is private to this goroutine
		}
	}
	key, t, ok := w.a.fieldKey(sel)
	if !ok || isMutex(t) || localTypes[strings.SplitN(key, ".", 2)[0]] {
		return
	}
	w.a.sites = append(w.a.sites, site{field: key, fn: w.fn, kind: kind, locks: w.held.clone(), pos: w.a.fset.Position(sel.Pos()).String()})
}

// expr walks an expression for reads (and nested calls)
func (w *walker) expr(e ast.Expr) {
	if e == nil {
		return
	}
	switch x := e.(type) {
	case *ast.SelectorExpr:
		w.expr(x.X)
		w.record(x, 0)
	case *ast.CallExpr:
		w.call(x)
	case *ast.FuncLit:
		w.a.funcLit(x, "")
	case *ast.CompositeLit:
		for _, el := range x.Elts {
			if kv, ok := el.(*ast.KeyValueExpr); ok {
				if fl, ok := kv.Value.(*ast.FuncLit); ok {
					name := w.a.funcLit(fl, "")
					if id, ok := kv.Key.(*ast.Ident); ok {
						if tv, ok := w.a.cur.Types[x]; ok {
							t := tv.Type
							if p, ok := t.(*types.Pointer); ok {
								t = p.Elem()
							}
							if n, ok := t.(*types.Named); ok {
								w.a.fieldLits[n.Obj().Name()+"."+id.Name] = append(w.a.fieldLits[n.Obj().Name()+"."+id.Name], name)
							}
						}
					}
					continue
				}
				w.expr(kv.Value)
			} else {
				w.expr(el)
			}
		}
	case *ast.UnaryExpr:
		w.expr(x.X)
	case *ast.BinaryExpr:
		w.expr(x.X)
		w.expr(x.Y)
	case *ast.ParenExpr:
		w.expr(x.X)
	case *ast.StarExpr:
		w.expr(x.X)
	case *ast.IndexExpr:
		w.expr(x.X)
		w.expr(x.Index)
	case *ast.SliceExpr:
		w.expr(x.X)
		w.expr(x.Low)
		w.expr(x.High)
	case *ast.TypeAssertExpr:
		w.expr(x.X)
	case *ast.KeyValueExpr:
		w.expr(x.Value)
	}
}

func (w *walker) call(c *ast.CallExpr) {
	// mutex operations
	if sel, ok := c.Fun.(*ast.SelectorExpr); ok {
		if inner, ok := sel.X.(*ast.SelectorExpr); ok {
			if key, t, ok := w.a.fieldKey(inner); ok && isMutex(t) {
				switch sel.Sel.Name {
				case "Lock", "RLock":
					mode := 1
					if sel.Sel.Name == "RLock" {
						mode = 0
					}
					w.expr(inner.X)
					w.a.acqs = append(w.a.acqs, acquire{fn: w.fn, key: key, mode: mode, held: w.held.clone()})
					w.held[key] = mode
					return
				case "Unlock", "RUnlock":
					delete(w.held, key)
					return
				}
			}
		}
		// sync/atomic on a field: atomic access
		if id, ok := sel.X.(*ast.Ident); ok {
			if pn, ok := w.a.cur.Uses[id].(*types.PkgName); ok && pn.Imported().Path() == "sync/atomic" && len(c.Args) > 0 {
				if u, ok := c.Args[0].(*ast.UnaryExpr); ok && u.Op == token.AND {
					if fs, ok := u.X.(*ast.SelectorExpr); ok {
						w.expr(fs.X)
						kind := 3
						if strings.HasPrefix(sel.Sel.Name, "Load") {
							kind = 2
						}
						w.record(fs, kind)
						for _, arg := range c.Args[1:] {
							w.expr(arg)
						}
						return
					}
				}
			}
		}
	}
	for _, callee := range w.a.calleeNames(c) {
		w.a.calls = append(w.a.calls, callSite{caller: w.fn, callee: callee, locks: w.held.clone()})
	}
	if sel, ok := c.Fun.(*ast.SelectorExpr); ok {
		w.expr(sel.X)
	}
	for _, arg := range c.Args {
		w.expr(arg)
	}
}

func (w *walker) lhs(e ast.Expr) {
	switch x := e.(type) {
	case *ast.SelectorExpr:
		w.expr(x.X)
		w.record(x, 1)
	case *ast.IndexExpr: // m[k] = v writes the map / slice held in the field
		if s, ok := x.X.(*ast.SelectorExpr); ok {
			w.expr(s.X)
			w.record(s, 1)
		} else {
			w.expr(x.X)
		}
		w.expr(x.Index)
	case *ast.StarExpr:
		w.expr(x.X)
	}
}

func (w *walker) block(list []ast.Stmt) {
	for _, s := range list {
		if w.dead {
			return
		}
		w.stmt(s)
	}
}

func (w *walker) branch(body func(b *walker)) (lockSet, bool) {
	b := &walker{a: w.a, fn: w.fn, held: w.held.clone(), skip: w.skip, fresh: w.fresh}
	body(b)
	return b.held, b.dead
}

func (w *walker) stmt(s ast.Stmt) {
	switch x := s.(type) {
	case *ast.ExprStmt:
		w.expr(x.X)
	case *ast.AssignStmt:
		for _, r := range x.Rhs {
			w.expr(r)
		}
		if x.Tok == token.DEFINE && len(x.Lhs) == len(x.Rhs) {
			for i, l := range x.Lhs {
				if id, ok := l.(*ast.Ident); ok && (w.isFresh(x.Rhs[i]) || w.rootFresh(x.Rhs[i])) {
					if obj := w.a.cur.Defs[id]; obj != nil {
						if w.fresh == nil {
							w.fresh = map[types.Object]bool{}
						}
						w.fresh[obj] = true
					}
				}
			}
		}
		for _, l := range x.Lhs {
			if x.Tok != token.ASSIGN && x.Tok != token.DEFINE {
				w.expr(l) // op-assign reads too
			}
			w.lhs(l)
		}
	case *ast.IncDecStmt:
		w.expr(x.X)
		w.lhs(x.X)
	case *ast.DeclStmt:
		if gd, ok := x.Decl.(*ast.GenDecl); ok {
			for _, sp := range gd.Specs {
				if vs, ok := sp.(*ast.ValueSpec); ok {
					for _, v := range vs.Values {
						w.expr(v)
					}
				}
			}
		}
	case *ast.ReturnStmt:
		for _, r := range x.Results {
			w.expr(r)
		}
		w.dead = true
	case *ast.DeferStmt:
		// defer X.Unlock(): X stays held to the end; other deferred calls run with the locks held at return (approximated by now)
		if sel, ok := x.Call.Fun.(*ast.SelectorExpr); ok && (sel.Sel.Name == "Unlock" || sel.Sel.Name == "RUnlock") {
			return
		}
		if fl, ok := x.Call.Fun.(*ast.FuncLit); ok {
			b := &walker{a: w.a, fn: w.fn, held: w.held.clone(), skip: w.skip, fresh: w.fresh}
			b.block(fl.Body.List)
			return
		}
		w.call(x.Call)
	case *ast.GoStmt:
		if fl, ok := x.Call.Fun.(*ast.FuncLit); ok {
			w.a.funcLit(fl, "")
			for _, arg := range x.Call.Args {
				w.expr(arg)
			}
			return
		}
		// go f(): f runs with no lock of ours
		saved := w.held
		w.held = lockSet{}
		w.call(x.Call)
		w.held = saved
	case *ast.BlockStmt:
		w.block(x.List)
	case *ast.IfStmt:
		if x.Init != nil {
			w.stmt(x.Init)
		}
		w.expr(x.Cond)
		h1, d1 := w.branch(func(b *walker) { b.block(x.Body.List) })
		h2, d2 := w.held.clone(), false
		if x.Else != nil {
			h2, d2 = w.branch(func(b *walker) { b.stmt(x.Else) })
		}
		switch {
		case d1 && d2:
			w.dead = true
		case d1:
			w.held = h2
		case d2:
			w.held = h1
		default:
			w.held = meet(h1, h2)
		}
	case *ast.ForStmt:
		if x.Init != nil {
			w.stmt(x.Init)
		}
		w.expr(x.Cond)
		w.branch(func(b *walker) {
			b.block(x.Body.List)
			if x.Post != nil {
				b.stmt(x.Post)
			}
		})
	case *ast.RangeStmt:
		w.expr(x.X)
		if w.rootFresh(x.X) {
			for _, v := range []ast.Expr{x.Key, x.Value} {
				if id, ok := v.(*ast.Ident); ok {
					if obj := w.a.cur.Defs[id]; obj != nil {
						if w.fresh == nil {
							w.fresh = map[types.Object]bool{}
						}
						w.fresh[obj] = true
					}
				}
			}
		}
		w.branch(func(b *walker) { b.block(x.Body.List) })
	case *ast.SwitchStmt:
		if x.Init != nil {
			w.stmt(x.Init)
		}
		w.expr(x.Tag)
		w.cases(x.Body.List)
	case *ast.TypeSwitchStmt:
		w.cases(x.Body.List)
	case *ast.SelectStmt:
		w.cases(x.Body.List)
	case *ast.LabeledStmt:
		w.stmt(x.Stmt)
	case *ast.SendStmt:
		w.expr(x.Chan)
		w.expr(x.Value)
	}
}

func (w *walker) cases(list []ast.Stmt) {
	var out lockSet
	allDead := len(list) > 0
	hasDefault := false
	for _, c := range list {
		var body []ast.Stmt
		switch cc := c.(type) {
		case *ast.CaseClause:
			for _, e := range cc.List {
				w.expr(e)
			}
			body = cc.Body
			if cc.List == nil {
				hasDefault = true
			}
		case *ast.CommClause:
			if cc.Comm != nil {
				w.stmt(cc.Comm)
			} else {
				hasDefault = true
			}
			body = cc.Body
		}
		h, d := w.branch(func(b *walker) { b.block(body) })
		if !d {
			allDead = false
			if out == nil {
				out = h
			} else {
				out = meet(out, h)
			}
		}
	}
	if !hasDefault {
		allDead = false
		if out == nil {
			out = w.held.clone()
		} else {
			out = meet(out, w.held)
		}
	}
	if allDead {
		w.dead = true
	} else if out != nil {
		w.held = out
	}
}

// funcLit analyses a function literal as a function of its own (entry lockset decided by its call sites, if any)
func (a *analyzer) funcLit(fl *ast.FuncLit, hint string) string {
	a.litCount++
	name := fmt.Sprintf("%s.lit@%s", a.curPkg.Name, strings.TrimPrefix(a.fset.Position(fl.Pos()).String(), filepath.Dir(filepath.Dir(filepath.Dir(a.fset.Position(fl.Pos()).Filename)))+"/"))
	if a.funcs[name] {
		return name
	}
	a.funcs[name] = true
	a.exported[name] = false
	w := &walker{a: a, fn: name, held: lockSet{}}
	w.block(fl.Body.List)
	return name
}

func main() {
	repo := flag.String("repo", "/repo", "Helios source tree")
	out := flag.String("out", ".", "output directory")
	flag.Parse()
	fail := func(err error) {
		os.WriteFile(filepath.Join(*out, "Access.err"), []byte(err.Error()+"\n"), 0o644)
		fmt.Fprintln(os.Stderr, "access:", err)
		os.Exit(1)
	}
	cfg := &packages.Config{Mode: packages.NeedName | packages.NeedFiles | packages.NeedSyntax | packages.NeedTypes | packages.NeedTypesInfo | packages.NeedImports | packages.NeedDeps, Dir: *repo,
		Env: append(os.Environ(), "GOFLAGS=", "GOPROXY=off", "GOSUMDB=off")}
	pkgs, err := packages.Load(cfg, "./internal/loadbalancer", "./internal/metrics", "./internal/circuitbreaker", "./internal/ratelimiter")
	if err != nil {
		fail(err)
	}
	a := &analyzer{funcs: map[string]bool{}, exported: map[string]bool{}, fieldLits: map[string][]string{}, methodsByName: map[string][]string{}}
	for _, p := range pkgs {
		if len(p.Errors) > 0 {
			fail(fmt.Errorf("%s: %v", p.PkgPath, p.Errors[0]))
		}
		a.fset = p.Fset
	}
	// method table for interface resolution
	for _, p := range pkgs {
		for _, f := range p.Syntax {
			for _, d := range f.Decls {
				if fd, ok := d.(*ast.FuncDecl); ok && fd.Recv != nil && fd.Body != nil {
					a.curPkg = p
					a.methodsByName[p.Name+"."+fd.Name.Name] = append(a.methodsByName[p.Name+"."+fd.Name.Name], a.funcName(fd))
				}
			}
		}
	}
	// two passes: the first collects the function literals assigned to func-typed fields, the second analyses with them resolved
	for pass := 0; pass < 2; pass++ {
		a.sites, a.calls, a.acqs = nil, nil, nil
		a.funcs, a.exported = map[string]bool{}, map[string]bool{}
		for _, p := range pkgs {
			a.cur, a.curPkg = p.TypesInfo, p
			for _, f := range p.Syntax {
				if strings.HasSuffix(p.Fset.Position(f.Pos()).Filename, "_test.go") {
					continue
				}
				for _, d := range f.Decls {
					fd, ok := d.(*ast.FuncDecl)
					if !ok || fd.Body == nil {
						continue
					}
					name := a.funcName(fd)
					a.funcs[name] = true
					a.exported[name] = ast.IsExported(fd.Name.Name)
					ctor := strings.HasPrefix(fd.Name.Name, "New") || strings.HasPrefix(fd.Name.Name, "create") || strings.HasPrefix(fd.Name.Name, "setup")
					w := &walker{a: a, fn: name, held: lockSet{}, skip: ctor}
					w.block(fd.Body.List)
				}
			}
		}
	}
	// entry locksets: intersection over the call sites; exported functions and uncalled ones start with nothing
	entry := map[string]lockSet{}
	called := map[string]bool{}
	for _, c := range a.calls {
		called[c.callee] = true
	}
	top := func(fn string) bool { return called[fn] && !a.exported[fn] }
	for fn := range a.funcs {
		if !top(fn) {
			entry[fn] = lockSet{}
		}
	}
	for changed, iter := true, 0; changed && iter < 50; iter++ {
		changed = false
		for fn := range a.funcs {
			if !top(fn) {
				continue
			}
			var acc lockSet
			known := false
			for _, c := range a.calls {
				if c.callee != fn {
					continue
				}
				ce, ok := entry[c.caller]
				if !ok {
					continue // caller still unknown: optimistic
				}
				at := c.locks.clone()
				for k, v := range ce {
					if w, ok := at[k]; !ok || v > w {
						at[k] = v
					}
				}
				if !known {
					acc, known = at, true
				} else {
					acc = meet(acc, at)
				}
			}
			if known {
				if old, ok := entry[fn]; !ok || len(old) != len(acc) {
					entry[fn] = acc
					changed = true
				}
			}
		}
	}
	full := func(fn string, local lockSet) lockSet {
		o := local.clone()
		for k, v := range entry[fn] {
			if w, ok := o[k]; !ok || v > w {
				o[k] = v
			}
		}
		return o
	}
	// locks acquired by a function, transitively
	acq := map[string]map[string]bool{}
	for fn := range a.funcs {
		acq[fn] = map[string]bool{}
	}
	for _, q := range a.acqs {
		acq[q.fn][fmt.Sprintf("%s/%d", q.key, q.mode)] = true
	}
	for changed := true; changed; {
		changed = false
		for _, c := range a.calls {
			for k := range acq[c.callee] {
				if !acq[c.caller][k] {
					acq[c.caller][k] = true
					changed = true
				}
			}
		}
	}
	type edge struct{ from, to string }
	edges := map[edge]string{}
	for _, q := range a.acqs {
		for h, m := range full(q.fn, q.held) {
			edges[edge{fmt.Sprintf("%s/%d", h, m), fmt.Sprintf("%s/%d", q.key, q.mode)}] = q.fn
		}
	}
	for _, c := range a.calls {
		for h, m := range full(c.caller, c.locks) {
			for k := range acq[c.callee] {
				e := edge{fmt.Sprintf("%s/%d", h, m), k}
				if _, ok := edges[e]; !ok {
					edges[e] = c.caller + " -> " + c.callee
				}
			}
		}
	}
	// ---- output ----
	var o strings.Builder
	o.WriteString("(* GENERATED by go2coq/access from the current source tree - do not edit. Target: Access *)\n")
	o.WriteString("From Coq Require Import ZArith String List.\nImport ListNotations.\nOpen Scope string_scope.\nOpen Scope Z_scope.\n\n")
	o.WriteString("(* access site: field, function, kind (0 read, 1 write, 2 atomic read, 3 atomic write), locks held (lock, mode: 0 read, 1 write) *)\n")
	o.WriteString("Definition sites : list (string * string * Z * list (string * Z)) := [\n")
	type row struct{ s string }
	seen := map[string]bool{}
	var rows []string
	for _, s := range a.sites {
		ls := full(s.fn, s.locks)
		var keys []string
		for k := range ls {
			keys = append(keys, k)
		}
		sort.Strings(keys)
		var items []string
		for _, k := range keys {
			items = append(items, fmt.Sprintf("(\"%s\", %d)", k, ls[k]))
		}
		r := fmt.Sprintf("  (\"%s\", \"%s\", %d, [%s])", s.field, s.fn, s.kind, strings.Join(items, "; "))
		if !seen[r] {
			seen[r] = true
			rows = append(rows, r)
		}
	}
	sort.Strings(rows)
	o.WriteString(strings.Join(rows, ";\n"))
	o.WriteString("\n].\n\n(* acquired-while-holding: (held lock/mode, acquired lock/mode) *)\nDefinition lock_edges : list (string * string) := [\n")
	var es []string
	for e, where := range edges {
		es = append(es, fmt.Sprintf("  (\"%s\", \"%s\") (* %s *)", e.from, e.to, where))
	}
	sort.Strings(es)
	o.WriteString(strings.Join(es, ";\n"))
	o.WriteString("\n].\n")
	if err := os.WriteFile(filepath.Join(*out, "Access.v"), []byte(o.String()), 0o644); err != nil {
		fail(err)
	}
}
